#!/usr/bin/env python3
import json,sys
sid,prop,needs,ran,result=sys.argv[1:6]
json.dump({"seed":sid,"breaks_property":prop,"needs_to_manifest":needs,"what_was_run":ran,"outcome":result},open('/verif/seeded/%s/meta.json'%sid,'w'),indent=1)
