//zz:pkg internal/reghttp
package reghttp

import (
	"context"
	"io"
	"log/slog"
	"net/http"
	"strconv"
	"strings"
	"time"

	"github.com/regclient/regclient/config"
	"github.com/regclient/regclient/internal/auth"
)

// zzSeqNet answers every transport call by symbolic choice from {200, 429 with
// Retry-After: 1, 500} and records when it arrived (virtual time).
type zzSeqNet struct {
	calls []zzCall
}

func (n *zzSeqNet) RoundTrip(req *http.Request) (*http.Response, error) {
	c := zzCall{host: req.URL.Host, method: req.Method, at: time.Now()}
	status := []int{200, 429, 500}[zzInt("seq_reply", 0, 2)]
	c.status = status
	h := http.Header{}
	body := ""
	if status == 429 {
		c.retryAfter = true
		h.Set("Retry-After", "1")
	}
	if status == 200 {
		body = "ok"
		h.Set("Content-Length", "2")
	}
	n.calls = append(n.calls, c)
	return &http.Response{StatusCode: status, Status: strconv.Itoa(status), Header: h, Body: io.NopCloser(strings.NewReader(body)), Request: req}, nil
}

// Several requests through one client and one host, overlapping the way the
// blob and manifest requests of an image copy do: a response may stay open
// while other requests are made and be read to its end later. Whatever the
// order, the host is never asked again earlier than it demanded (Retry-After)
// or than the configured back-off after a failure - also when a response
// opened before the failure completes successfully in between.
func ZZC12_sequence() {
	zzClockVirtual()
	R := zzInt("retry_limit", 1, 2)
	net := &zzSeqNet{}
	c := NewClient(WithRetryLimit(R), WithDelay(2*time.Millisecond, 8*time.Millisecond))
	lg := slog.New(slog.NewTextHandler(io.Discard, nil))
	cfg := &config.Host{Name: zzUp, Hostname: zzUp, TLS: config.TLSEnabled}
	c.host[zzUp] = &clientHost{config: cfg, httpClient: &http.Client{Transport: &wrapTransport{c: c, orig: net}}, auth: map[string]*auth.Auth{}, slog: lg}
	ctx := context.Background()
	var open []*Resp
	steps := 3 + zzTier()
	for s := 0; s < steps; s++ {
		if len(open) > 0 && zzBool("finish_an_open_response") {
			// a success on the host: the body is read to its end
			b, err := io.ReadAll(open[0])
			if err == nil {
				zzAssert(string(b) == "ok", "body_of_the_good_reply_is_delivered")
				zzReach("earlier_response_completed")
			}
			_ = open[0].Close()
			open = open[1:]
			continue
		}
		resp, err := c.Do(ctx, &Req{Host: zzUp, Method: "GET", Repository: "repo", Path: "blobs/x" + strconv.Itoa(s)})
		if err == nil {
			open = append(open, resp)
		} else if resp != nil {
			_ = resp.Close()
		}
	}
	zzReach("sequence_done")
	zzAssert(len(net.calls) <= steps*(R+2), "attempts_bounded_by_retry_limit")
	for i, cl := range net.calls {
		for j := i - 1; j >= 0; j-- {
			switch net.calls[j].status {
			case 429, 500:
				zzReach("request_after_backoff_failure")
				if net.calls[j].retryAfter {
					zzReach("request_after_retry_after")
					zzAssert(cl.at.Sub(net.calls[j].at) >= time.Second, "server_requested_delay_honoured")
				} else {
					zzAssert(cl.at.Sub(net.calls[j].at) >= 4*time.Millisecond, "backoff_delay_honoured")
				}
			}
			break
		}
	}
}
