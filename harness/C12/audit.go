//zz:pkg scheme/reg
//zz:hook internal/reghttp Client.Do
package reg

import (
	"bytes"
	"context"
	"fmt"
	"io"
	"log/slog"
	"net/http"
	"net/url"

	"github.com/opencontainers/go-digest"

	"github.com/regclient/regclient/internal/reghttp"
	"github.com/regclient/regclient/scheme"
	"github.com/regclient/regclient/types/descriptor"
	"github.com/regclient/regclient/types/errs"
	"github.com/regclient/regclient/types/manifest"
	"github.com/regclient/regclient/types/mediatype"
	v1 "github.com/regclient/regclient/types/oci/v1"
	"github.com/regclient/regclient/types/ref"
)

// Mirror audit: every state-changing request any Reg entry point issues is
// sent with NoMirrors set, i.e. only to the registry named in the reference.
// Client.Do is replaced by a recorder that answers every request with a
// symbolic status (and plausible headers) so that multi-request operations
// proceed.
type zzRecorder struct {
	client *reghttp.Client
	n      int
}

func (s *zzRecorder) do(c *reghttp.Client, ctx context.Context, req *reghttp.Req) (*reghttp.Resp, error) {
	s.n++
	zzReach("request_seen")
	if req.Method != "GET" && req.Method != "HEAD" {
		zzReach("mutating_request_seen")
		if req.Method == "DELETE" {
			zzAssert(req.NoMirrors, "delete_requests_skip_mirrors")
		} else {
			zzAssert(req.NoMirrors, "mutating_requests_skip_mirrors")
		}
	}
	u := req.DirectURL
	if u == nil {
		u = &url.URL{Scheme: "https", Host: "reg.example", Path: "/v2/repo/" + req.Path}
	}
	statuses := []int{200, 201, 202, 204, 404, 405}
	status := 500
	if s.n <= 3+zzTier() {
		status = statuses[zzInt("status", 0, len(statuses)-1)]
	} else if s.n > 8 {
		// bound the exploration: after eight requests the transport is gone
		return reghttp.ZZNewResp(s.client, ctx, req, u, 500, nil, nil, 0), errs.ErrAllRequestsFailed
	}
	h := http.Header{}
	h.Set("Location", "/v2/repo/blobs/uploads/sess")
	h.Set("Range", "0-0")
	h.Set("Docker-Content-Digest", "sha256:0123456789abcdef0123456789abcdef0123456789abcdef0123456789abcdef")
	h.Set("Content-Type", mediatype.OCI1Manifest)
	resp := reghttp.ZZNewResp(s.client, ctx, req, u, status, h, nil, 0)
	if status < 200 || status >= 300 { // as the real Do: any non-2xx reply is an error, IgnoreErr only suppresses the back-off
		return resp, fmt.Errorf("request failed: %w", reghttp.HTTPError(status))
	}
	return resp, nil
}

func ZZC12_mirror_audit() {
	rg := New(WithSlog(slog.New(slog.NewTextHandler(io.Discard, nil))))
	rg.reghttp = reghttp.ZZNewClient()
	rec := &zzRecorder{client: rg.reghttp}
	reghttp.ZZHook_Client_Do = rec.do
	ctx := context.Background()
	r, _ := ref.New("reg.example/repo:tag")
	rSrc, _ := ref.New("reg.example/other:tag")
	const dg = "sha256:0123456789abcdef0123456789abcdef0123456789abcdef0123456789abcdef"
	rd := r.SetDigest(dg)
	d := descriptor.Descriptor{MediaType: mediatype.OCI1Layer, Digest: digest.Digest(dg), Size: 3}
	m, err := manifest.New(manifest.WithOrig(v1.Manifest{
		Versioned: v1.ManifestSchemaVersion, MediaType: mediatype.OCI1Manifest,
		Config: descriptor.Descriptor{MediaType: mediatype.OCI1ImageConfig, Digest: digest.Digest(dg), Size: 2},
		Layers: []descriptor.Descriptor{},
	}))
	zzAssert(err == nil, "manifest_builds")
	switch zzInt("entry_point", 0, 12) {
	case 0:
		rg.BlobDelete(ctx, r, d)
	case 1:
		rg.BlobGet(ctx, r, d)
	case 2:
		rg.BlobHead(ctx, r, d)
	case 3:
		rg.BlobMount(ctx, rSrc, r, d)
	case 4:
		rg.BlobPut(ctx, r, descriptor.Descriptor{}, bytes.NewReader([]byte("abc")))
	case 5:
		rg.BlobPut(ctx, r, descriptor.Descriptor{Digest: digest.FromBytes([]byte("abc")), Size: 3}, bytes.NewReader([]byte("abc")))
	case 6:
		rg.ManifestDelete(ctx, rd)
	case 7:
		rg.ManifestDelete(ctx, rd, scheme.WithManifestCheckReferrers())
	case 8:
		rg.ManifestGet(ctx, r)
	case 9:
		rg.ManifestHead(ctx, r)
	case 10:
		rg.ManifestPut(ctx, r, m)
	case 11:
		rg.TagDelete(ctx, r)
	case 12:
		rg.TagList(ctx, r)
	}
	zzReach("entry_point_returned")
}
