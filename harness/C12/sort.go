//zz:pkg internal/reghttp
package reghttp

import (
	"sort"
	"time"

	"github.com/regclient/regclient/config"
)

// Host order for reads (documented in docs/regctl.md, docs/regsync.md and
// config/host.go): mirrors sorted by priority, highest first; the named
// registry after mirrors of the same priority; hosts that are backing off
// after all others.
func ZZC12_sort() {
	n := 3
	names := []string{"up", "m1", "m2"}
	hosts := make([]*clientHost, n)
	now := time.Now()
	for i := 0; i < n; i++ {
		h := &clientHost{config: &config.Host{Name: names[i], Priority: uint(zzInt("priority", 0, 3))}}
		if zzBool("backing_off") {
			h.backoffLast = now.Add(time.Duration(zzInt("backoff_s", 3600, 3602)) * time.Second)
		}
		hosts[i] = h
	}
	sort.Slice(hosts, sortHostsCmp(hosts, "up"))
	zzReach("sorted")
	// the sort took its own clock reading: assume less than a minute passed
	zzAssume(time.Now().Sub(now) < time.Minute)
	for i := 0; i+1 < n; i++ {
		a, b := hosts[i], hosts[i+1]
		aOff, bOff := !a.backoffLast.IsZero(), !b.backoffLast.IsZero()
		if aOff || bOff {
			zzReach("with_backoff")
			zzAssert(!aOff || bOff, "hosts_backing_off_come_after_the_others")
			continue
		}
		zzAssert(a.config.Priority >= b.config.Priority, "priority_descending")
		if a.config.Priority == b.config.Priority {
			zzAssert(a.config.Name != "up" || b.config.Name == "up", "named_registry_last_among_equal_priority")
		}
	}
}
