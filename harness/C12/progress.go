//zz:pkg scheme/reg
//zz:hook internal/reghttp Client.Do
package reg

import (
	"bytes"
	"context"
	"fmt"
	"io"
	"log/slog"
	"net/http"
	"net/url"
	"strconv"

	"github.com/regclient/regclient/internal/reghttp"
	"github.com/regclient/regclient/types/descriptor"
	"github.com/regclient/regclient/types/ref"
)

// zzStall is an upload endpoint that may stop making progress: every PATCH is
// answered, by symbolic choice, with a normal partial acceptance, or with one
// of the replies that carry no progress (202 repeating the old Range, 4xx
// with Location and the old Range, 5xx followed by a status reply with the old
// Range). The client must give up after a bounded number of requests that
// made no progress.
type zzStall struct {
	client   *reghttp.Client
	off      int
	patches  int
	sinceAdv int // PATCH requests since the offset last advanced
	maxIdle  int
	kind     int
	stallAt  int
}

func (s *zzStall) rng() string {
	e := s.off - 1
	if e < 0 {
		e = 0
	}
	return "0-" + strconv.Itoa(e)
}

func (s *zzStall) do(c *reghttp.Client, ctx context.Context, req *reghttp.Req) (*reghttp.Resp, error) {
	u := req.DirectURL
	if u == nil {
		u = &url.URL{Scheme: "https", Host: "reg.example", Path: "/v2/repo/" + req.Path}
	}
	reply := func(status int, h http.Header) (*reghttp.Resp, error) {
		resp := reghttp.ZZNewResp(s.client, ctx, req, u, status, h, nil, 0)
		if status < 200 || status >= 300 { // as the real Do: any non-2xx reply is an error, IgnoreErr only suppresses the back-off
			return resp, fmt.Errorf("request failed: %w", reghttp.HTTPError(status))
		}
		return resp, nil
	}
	loc := http.Header{"Location": {"/v2/repo/blobs/uploads/sess"}}
	switch req.Method {
	case "PATCH":
		s.patches++
		s.sinceAdv++
		zzReach("patch_seen")
		if s.sinceAdv > 3 {
			zzReach("several_idle_patches")
		}
		zzAssert(s.sinceAdv <= s.maxIdle, "upload_gives_up_after_bounded_requests_without_progress")
		if s.off >= s.stallAt {
			// from a symbolic offset (> 0, so that "nothing new" is unambiguous) on,
			// the endpoint keeps answering with one kind of no-progress reply
			switch s.kind {
			case 1:
				return reply(202, http.Header{"Range": {s.rng()}, "Location": loc["Location"]})
			case 2:
				return reply(416, http.Header{"Range": {s.rng()}, "Location": loc["Location"]})
			case 3:
				return reply(500, nil)
			}
		}
		s.off += int(req.BodyLen)
		s.sinceAdv = 0
		return reply(202, http.Header{"Range": {s.rng()}, "Location": loc["Location"]})
	case "GET":
		return reply(204, http.Header{"Range": {s.rng()}, "Location": loc["Location"]})
	case "PUT":
		return reply(201, nil)
	}
	return reply(202, loc)
}

func ZZC12_upload_progress() {
	s := &zzStall{maxIdle: 12, kind: zzInt("stall_kind", 1, 3), stallAt: zzInt("stall_at", 1, 2)}
	rg := New(WithSlog(slog.New(slog.NewTextHandler(io.Discard, nil))))
	rg.reghttp = reghttp.ZZNewClient()
	s.client = rg.reghttp
	reghttp.ZZHook_Client_Do = s.do
	r, _ := ref.New("reg.example/repo")
	rg.hostGet(r.Registry).BlobChunk = 1
	content := []byte("abc")
	putURL, _ := url.Parse("https://reg.example/v2/repo/blobs/uploads/sess")
	_, err := rg.blobPutUploadChunked(context.Background(), r, descriptor.Descriptor{}, putURL, bytes.NewReader(content))
	zzReach("upload_returned")
	_ = err
}
