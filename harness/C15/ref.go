//zz:pkg types/ref
package ref

import (
	"regexp"
	"strings"
)

// Independent recogniser: the reference grammar of the distribution and image
// specs, typed here (not derived from the code under test).
var (
	zzRepoRE   = regexp.MustCompile(`^[a-z0-9]+(?:(?:\.|_|__|-+)[a-z0-9]+)*(?:/[a-z0-9]+(?:(?:\.|_|__|-+)[a-z0-9]+)*)*$`)
	zzTagRE    = regexp.MustCompile(`^[A-Za-z0-9_][A-Za-z0-9._-]{0,127}$`)
	zzDigestRE = regexp.MustCompile(`^[A-Za-z][A-Za-z0-9]*(?:[-_+.][A-Za-z][A-Za-z0-9]*)*:[0-9a-fA-F]{32,}$`)
	zzHostRE   = regexp.MustCompile(`^[A-Za-z0-9.:-]+$`)
	// a domain as Docker and the distribution spec define it: dot separated labels of letters, digits and inner dashes, optional port
	zzDomainRE = regexp.MustCompile(`^[a-zA-Z0-9](?:[a-zA-Z0-9-]*[a-zA-Z0-9])?(?:\.[a-zA-Z0-9](?:[a-zA-Z0-9-]*[a-zA-Z0-9])?)*(?::[0-9]+)?$`)
)

// zzDomainOf: the first component of s when, by Docker's rule, it is the
// registry domain (it contains a dot or a colon, or is "localhost") and it is
// a well-formed domain; "" otherwise.
func zzDomainOf(s string) string {
	i := strings.Index(s, "/")
	if i <= 0 {
		return ""
	}
	first := s[:i]
	if !strings.Contains(first, ".") && !strings.Contains(first, ":") && first != "localhost" {
		return ""
	}
	if !zzDomainRE.MatchString(first) {
		return ""
	}
	return first
}

func zzSameRef(a, b Ref) bool {
	return a.Scheme == b.Scheme && a.Registry == b.Registry && a.Repository == b.Repository && a.Tag == b.Tag && a.Digest == b.Digest && a.Path == b.Path
}

// zzCheck is the body shared by the harnesses: round trip, Docker Hub
// expansion and rejection of malformed names for one input string.
func zzCheck(s string) {
	r, err := New(s)
	zzReach("parsed_or_rejected")
	if err != nil {
		zzReach("rejected")
		return
	}
	zzReach("accepted")
	// round trip
	cn := r.CommonName()
	r2, err2 := New(cn)
	zzAssert(err2 == nil, "common_name_parses_again")
	zzAssert(zzSameRef(r, r2), "round_trip_preserves_every_component")
	switch r.Scheme {
	case "reg":
		zzReach("accepted_reg")
		// rejection: accepted components are inside the grammar
		zzAssert(zzRepoRE.MatchString(r.Repository), "repository_is_lowercase_grammar")
		zzAssert(r.Tag == "" || zzTagRE.MatchString(r.Tag), "tag_is_in_grammar")
		zzAssert(r.Digest == "" || zzDigestRE.MatchString(r.Digest), "digest_is_in_grammar")
		zzAssert(r.Registry != "" && zzHostRE.MatchString(r.Registry), "registry_is_a_host")
		zzAssert(r.Tag != "" || r.Digest != "", "tag_or_digest_always_set")
		// Docker Hub expansion
		if !strings.Contains(s, "/") {
			zzAssert(r.Registry == "docker.io" && strings.HasPrefix(r.Repository, "library/"), "short_name_expands_to_docker_hub_library")
		}
		if r.Registry == "docker.io" {
			zzAssert(strings.Contains(r.Repository, "/"), "docker_hub_repository_has_namespace")
		}
		zzAssert(r.Registry != "index.docker.io" && r.Registry != "registry-1.docker.io", "legacy_hub_names_folded")
		// a well-formed domain in front is the registry, never folded into the repository
		if dom := zzDomainOf(s); dom != "" && dom != "docker.io" && dom != "index.docker.io" && dom != "registry-1.docker.io" {
			zzReach("domain_in_front")
			zzAssert(r.Registry == dom, "well_formed_domain_is_the_registry")
		}
		if !strings.Contains(s, ":") && !strings.Contains(s, "@") {
			zzAssert(r.Tag == "latest", "default_tag_is_latest")
		}
	case "ocidir", "ocifile":
		zzReach("accepted_ocidir")
		zzAssert(r.Path != "", "ocidir_has_path")
		zzAssert(r.Tag == "" || zzTagRE.MatchString(r.Tag), "ocidir_tag_is_in_grammar")
	default:
		zzFail("unknown_scheme_accepted")
	}
	// replacing tag or digest leaves every other component unchanged
	t := r.SetTag("other")
	zzAssert(t.Tag == "other" && t.Digest == "" && t.Scheme == r.Scheme && t.Registry == r.Registry && t.Repository == r.Repository && t.Path == r.Path, "set_tag_changes_only_tag_and_digest")
	zzAssert(t.Reference == t.CommonName(), "set_tag_rebuilds_reference")
	const dg = "sha256:0123456789abcdef0123456789abcdef0123456789abcdef0123456789abcdef"
	d := r.SetDigest(dg)
	zzAssert(d.Digest == dg && d.Tag == "" && d.Scheme == r.Scheme && d.Registry == r.Registry && d.Repository == r.Repository && d.Path == r.Path, "set_digest_changes_only_tag_and_digest")
	zzAssert(d.Reference == d.CommonName(), "set_digest_rebuilds_reference")
	// the same holds when the new value equals the old one, and on a reference that carries both
	same := r.SetTag(r.Tag)
	zzAssert(same.Tag == r.Tag && same.Digest == "" && same.Reference == same.CommonName(), "set_tag_to_the_same_tag_still_drops_the_digest")
	both := r.SetTag("v1").AddDigest(dg)
	zzAssert(both.Tag == "v1" && both.Digest == dg && both.Reference == both.CommonName(), "add_digest_keeps_the_tag")
	bt := both.SetTag("v1")
	zzAssert(bt.Tag == "v1" && bt.Digest == "" && bt.Reference == bt.CommonName() && bt.Repository == r.Repository && bt.Registry == r.Registry && bt.Path == r.Path, "set_tag_to_the_same_tag_still_drops_the_digest")
	bd := both.SetDigest(dg)
	zzAssert(bd.Tag == "" && bd.Digest == dg && bd.Reference == bd.CommonName(), "set_digest_to_the_same_digest_still_drops_the_tag")
	// what the setters print parses back to what they hold
	if r.Scheme == "reg" {
		for _, x := range []Ref{t, d, both, bt} {
			y, err := New(x.CommonName())
			zzAssert(err == nil && y.Tag == x.Tag && y.Digest == x.Digest && y.Repository == x.Repository && y.Registry == x.Registry, "setter_result_round_trips")
		}
	}
}

// Arbitrary ASCII strings without scheme prefix, all lengths up to N.
func ZZC15_arbitrary() {
	n := zzInt("len", 0, 7+3*zzTier())
	s := zzString("s", n)
	zzCheck(s)
}

// Strings with a scheme prefix: known schemes and an arbitrary one.
func ZZC15_schemes() {
	var pfx string
	switch zzInt("scheme", 0, 3) {
	case 0:
		pfx = "ocidir://"
	case 1:
		pfx = "ocifile://"
	case 2:
		pfx = "reg://"
	case 3:
		pfx = zzString("scheme_name", zzInt("scheme_len", 1, 3)) + "://"
	}
	n := zzInt("len", 0, 5+3*zzTier())
	zzCheck(pfx + zzString("s", n))
}

// Digest-bearing references: arbitrary short name, algorithm characters (plus
// one illegal character) and a hex part of the boundary lengths (hex digits
// plus one non-hex letter).
func ZZC15_digests() {
	name := zzString("name", zzInt("name_len", 1, 3+2*zzTier()))
	alg := zzStringOf("alg", zzInt("alg_len", 1, 3+3*zzTier()), "a-zA-Z0-9+._!-")
	hex := zzStringOf("hex", zzInt("hex_len", 31, 33), "0-9a-gA-G")
	zzCheck(name + "@" + alg + ":" + hex)
}

// Tags at the length boundary: tag characters plus one illegal character.
func ZZC15_longtag() {
	n := zzInt("tag_len", 127, 129)
	zzCheck("r:" + zzStringOf("tag", n, "a-zA-Z0-9._!-"))
}

// Host forms that the short bound of the arbitrary-string harness cannot
// reach: Docker Hub and its legacy names, localhost forms, ports, IPv4, an
// upper-case host, a trailing dot - each followed by an arbitrary short rest.
func ZZC15_hosts() {
	hosts := []string{"docker.io/", "index.docker.io/", "registry-1.docker.io/", "localhost/", "localhost:5000/", "example.com/", "example.com:5000/", "10.0.0.1:5000/", "EXAMPLE/", "example.com./", "library/", "a.b/library/"}
	h := hosts[zzInt("host", 0, len(hosts)-1)]
	n := zzInt("len", 0, 4+2*zzTier())
	zzCheck(h + zzString("s", n))
}

// Domains: a registry domain of two labels with symbolic characters (letters,
// digits, dashes - consecutive ones included) and an optional port, in front
// of a fixed repository and tag: the reference is in the grammar, so it is
// accepted, with exactly that domain as its registry.
func ZZC15_domains() {
	l1 := zzStringOf("label1", zzInt("len1", 1, 4+zzTier()), "a-z0-9-")
	l2 := zzStringOf("label2", zzInt("len2", 1, 2), "a-z0-9-")
	dom := l1 + "." + l2
	if zzBool("port") {
		dom += ":5000"
	}
	zzAssume(zzDomainRE.MatchString(dom))
	s := dom + "/team/image:v1"
	r, err := New(s)
	zzReach("domain_reference_tried")
	zzAssert(err == nil, "reference_in_the_grammar_is_accepted")
	if err != nil {
		return
	}
	zzAssert(r.Registry == dom && r.Repository == "team/image" && r.Tag == "v1", "well_formed_domain_is_the_registry")
	zzCheck(s)
}
