//zz:pkg mod
//zz:subst scheme/ocidir os
package mod

import (
	"context"
	"encoding/json"

	"github.com/opencontainers/go-digest"

	"github.com/regclient/regclient"
	zzos "github.com/regclient/regclient/internal/zzos"
	"github.com/regclient/regclient/types/descriptor"
	"github.com/regclient/regclient/types/mediatype"
	"github.com/regclient/regclient/types/platform"
	"github.com/regclient/regclient/types/ref"
)

// zzWellFormedAny is zzWellFormed for results that may use Docker media
// types and another digest algorithm: every descriptor names content that is
// there, hashes to the digest under the digest's own algorithm, and has the
// stated size; inline data is the content of its descriptor.
func zzWellFormedAny(root string, d descriptor.Descriptor, depth int) {
	b, ok := zzos.Cur.Data(zzBlobFile(root, d.Digest))
	zzAssert(ok, "descriptor_names_existing_content")
	if !ok {
		return
	}
	zzAssert(d.Digest.Algorithm().FromBytes(b) == d.Digest, "content_hashes_to_descriptor_digest")
	zzAssert(d.Size == int64(len(b)), "descriptor_size_is_content_length")
	if len(d.Data) > 0 {
		zzAssert(string(d.Data) == string(b), "inline_data_is_the_content_of_its_descriptor")
	}
	if depth > 2 {
		return
	}
	switch d.MediaType {
	case mediatype.OCI1Manifest, mediatype.OCI1ManifestList, mediatype.Docker2Manifest, mediatype.Docker2ManifestList:
	default:
		return
	}
	var probe struct {
		MediaType string                  `json:"mediaType"`
		Manifests []descriptor.Descriptor `json:"manifests"`
		Config    *descriptor.Descriptor  `json:"config"`
		Layers    []descriptor.Descriptor `json:"layers"`
	}
	if json.Unmarshal(b, &probe) != nil {
		return
	}
	if probe.MediaType != "" {
		zzAssert(probe.MediaType == d.MediaType, "descriptor_media_type_is_the_one_the_body_declares")
	}
	for _, m := range probe.Manifests {
		zzWellFormedAny(root, m, depth+1)
	}
	if probe.Config != nil && probe.Config.Digest != "" {
		zzWellFormedAny(root, *probe.Config, depth+1)
	}
	for _, l := range probe.Layers {
		zzWellFormedAny(root, l, depth+1)
	}
}

// Sequences of two options from the families that change metadata only
// (config fields, annotations derived from labels, media-type conversion in
// both directions, digest algorithm, external URL removal) over the symbolic
// graph: the result is well formed under its own media types and digest
// algorithm, the source is untouched, the same sequence gives the same digest.
func ZZC13_options() {
	zzSmall = zzTier() == 0 // quick: one layer per image
	w := zzBuildWorld()
	zzSmall = false
	srcBefore := map[string]string{}
	for _, f := range zzos.Cur.Files() {
		b, _ := zzos.Cur.Data(f)
		srcBefore[f] = string(b)
	}
	mk := func(k int) Opts {
		switch k {
		case 0:
			return WithEnv("ZZ", "1")
		case 1:
			return WithConfigCmd([]string{"/bin/true"})
		case 2:
			return WithExposeAdd("8080/tcp")
		case 3:
			return WithVolumeAdd("/data")
		case 4:
			return WithLabel("org.opencontainers.image.title", "zz")
		case 5:
			return WithLabelToAnnotation()
		case 6:
			return WithManifestToDocker()
		case 7:
			return WithManifestToOCI()
		case 8:
			return WithDigestAlgo(digest.SHA512)
		case 9:
			return WithExternalURLsRm()
		case 10:
			return WithConfigPlatform(platform.Platform{OS: "linux", Architecture: "arm64"})
		}
		return WithAnnotation("org.example.added", "x")
	}
	const nOpts = 12
	pick := func(name string) int {
		i := zzInt(name, 0, nOpts-1)
		for k := 0; k < nOpts; k++ {
			if i == k {
				return k
			}
		}
		return 0
	}
	k1, k2 := pick("option1"), pick("option2")
	sameRepo := zzBool("same_repo")
	run := func() (ref.Ref, error) {
		rSrc, _ := ref.New("ocidir://" + zzSrc + ":v1")
		opts := []Opts{mk(k1), mk(k2)}
		if !sameRepo {
			rT, _ := ref.New("ocidir://" + zzTgt + ":out")
			opts = append(opts, WithRefTgt(rT))
		}
		return Apply(context.Background(), regclient.New(), rSrc, opts...)
	}
	rOut, err := run()
	zzAssert(err == nil, "options_apply")
	if err != nil {
		return
	}
	zzReach("options_applied")
	root := zzTgt
	if sameRepo {
		root = zzSrc
	}
	outDig := zzOutDigest(root, rOut)
	zzAssert(outDig != "", "result_resolves_to_a_digest")
	ob, _ := zzos.Cur.Data(zzBlobFile(root, outDig))
	var top struct {
		MediaType string `json:"mediaType"`
	}
	_ = json.Unmarshal(ob, &top)
	mt := top.MediaType
	if mt == "" {
		mt = w.top.MediaType
	}
	zzWellFormedAny(root, descriptor.Descriptor{MediaType: mt, Digest: outDig, Size: int64(len(ob))}, 0)
	zzAssert(zzTagOf(zzSrc) == w.top.Digest, "source_tag_unchanged")
	for f, b := range srcBefore {
		got, ok := zzos.Cur.Data(f)
		if f == zzSrc+"/index.json" && sameRepo {
			continue
		}
		zzAssert(ok && string(got) == b, "source_content_unchanged")
	}
	rOut2, err2 := run()
	zzAssert(err2 == nil && zzOutDigest(root, rOut2) == outDig, "same_options_same_digest")
}
