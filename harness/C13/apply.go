//zz:pkg mod
//zz:subst scheme/ocidir os
package mod

import (
	"context"
	"encoding/json"
	"path"

	"github.com/opencontainers/go-digest"

	"github.com/regclient/regclient"
	zzos "github.com/regclient/regclient/internal/zzos"
	"github.com/regclient/regclient/types/descriptor"
	"github.com/regclient/regclient/types/mediatype"
	v1 "github.com/regclient/regclient/types/oci/v1"
	"github.com/regclient/regclient/types/ref"
)

// Image modification through the real mod.Apply (dagGet, option steps,
// dagPut) with the real client and ocidir scheme on the in-memory os model.
// Options are those that do not rewrite layer archives: annotation, label,
// data-field limit, target reference.

const zzSrc, zzTgt = "/src", "/tgt"

type zzWorld struct {
	pool  []descriptor.Descriptor
	bytes map[digest.Digest][]byte
	top   descriptor.Descriptor
	all   []digest.Digest // closure of top (manifests and blobs)
	mans  map[digest.Digest]bool
}

func zzBlobFile(root string, d digest.Digest) string {
	return path.Join(root, "blobs", d.Algorithm().String(), d.Encoded())
}

func (w *zzWorld) put(b []byte, mt string, manifest bool) descriptor.Descriptor {
	d := digest.FromBytes(b)
	w.bytes[d] = b
	if manifest {
		w.mans[d] = true
	}
	zzos.Cur.Put(zzBlobFile(zzSrc, d), b)
	return descriptor.Descriptor{MediaType: mt, Digest: d, Size: int64(len(b))}
}

var zzSmall bool

func (w *zzWorld) image(id int) descriptor.Descriptor {
	cfg := w.put([]byte(`{"architecture":"amd64","os":"linux","id":`+string(rune('0'+id))+`}`), mediatype.OCI1ImageConfig, false)
	w.all = append(w.all, cfg.Digest)
	nl := 1
	if !zzSmall {
		nl = zzInt("n_layers", 1, 2)
	}
	layers := []descriptor.Descriptor{}
	for i := 0; i < nl; i++ {
		l := w.pool[zzInt("layer", 0, len(w.pool)-1)] // layers may be shared or repeated
		layers = append(layers, l)
		w.all = append(w.all, l.Digest)
	}
	b, _ := json.Marshal(v1.Manifest{Versioned: v1.ManifestSchemaVersion, MediaType: mediatype.OCI1Manifest, Config: cfg, Layers: layers})
	d := w.put(b, mediatype.OCI1Manifest, true)
	w.all = append(w.all, d.Digest)
	return d
}

func zzBuildWorld() *zzWorld {
	zzos.Reset()
	w := &zzWorld{bytes: map[digest.Digest][]byte{}, mans: map[digest.Digest]bool{}}
	for i := 0; i < 2; i++ {
		w.pool = append(w.pool, w.put([]byte{'l', byte('0' + i)}, mediatype.OCI1LayerGzip, false))
	}
	if zzBool("is_index") {
		n := zzInt("n_images", 1, 2)
		idx := v1.Index{Versioned: v1.IndexSchemaVersion, MediaType: mediatype.OCI1ManifestList}
		for i := 0; i < n; i++ {
			idx.Manifests = append(idx.Manifests, w.image(i))
		}
		b, _ := json.Marshal(idx)
		w.top = w.put(b, mediatype.OCI1ManifestList, true)
		w.all = append(w.all, w.top.Digest)
	} else {
		w.top = w.image(0)
	}
	top := w.top
	top.Annotations = map[string]string{"org.opencontainers.image.ref.name": "v1"}
	sidx := v1.Index{Versioned: v1.IndexSchemaVersion, MediaType: mediatype.OCI1ManifestList, Manifests: []descriptor.Descriptor{top}}
	sb, _ := json.Marshal(sidx)
	zzos.Cur.Put(zzSrc+"/oci-layout", []byte(`{"imageLayoutVersion":"1.0.0"}`))
	zzos.Cur.Put(zzSrc+"/index.json", sb)
	return w
}

func zzTagOf(root string) digest.Digest {
	b, ok := zzos.Cur.Data(root + "/index.json")
	if !ok {
		return ""
	}
	var idx v1.Index
	if json.Unmarshal(b, &idx) != nil {
		return "invalid"
	}
	for _, e := range idx.Manifests {
		if e.Annotations["org.opencontainers.image.ref.name"] == "v1" {
			return e.Digest
		}
	}
	return ""
}

// zzWellFormed walks the result at root from digest d: every descriptor names
// content that exists there with that digest and size; inline data, when
// present, is the content of that very descriptor.
func zzWellFormed(root string, d descriptor.Descriptor, depth int) {
	b, ok := zzos.Cur.Data(zzBlobFile(root, d.Digest))
	zzAssert(ok, "descriptor_names_existing_content")
	if !ok {
		return
	}
	zzAssert(digest.FromBytes(b) == d.Digest, "content_hashes_to_descriptor_digest")
	zzAssert(d.Size == int64(len(b)), "descriptor_size_is_content_length")
	if len(d.Data) > 0 {
		zzReach("inline_data_seen")
		zzAssert(string(d.Data) == string(b), "inline_data_is_the_content_of_its_descriptor")
	}
	if depth > 2 {
		return
	}
	var probe struct {
		Manifests []descriptor.Descriptor `json:"manifests"`
		Config    *descriptor.Descriptor  `json:"config"`
		Layers    []descriptor.Descriptor `json:"layers"`
	}
	if d.MediaType != mediatype.OCI1Manifest && d.MediaType != mediatype.OCI1ManifestList {
		return
	}
	if json.Unmarshal(b, &probe) != nil {
		return
	}
	for _, m := range probe.Manifests {
		zzWellFormed(root, m, depth+1)
	}
	if probe.Config != nil && probe.Config.Digest != "" {
		zzWellFormed(root, *probe.Config, depth+1)
	}
	for _, l := range probe.Layers {
		zzWellFormed(root, l, depth+1)
	}
}

func zzApply(w *zzWorld, rc *regclient.RegClient, sameRepo bool, ann, label bool, data int) (ref.Ref, error) {
	rSrc, _ := ref.New("ocidir://" + zzSrc + ":v1")
	var opts []Opts
	if !sameRepo {
		rT, _ := ref.New("ocidir://" + zzTgt + ":out")
		opts = append(opts, WithRefTgt(rT))
	}
	if ann {
		opts = append(opts, WithAnnotation("org.example.added", "x"))
	}
	if label {
		opts = append(opts, WithLabel("org.example.label", "y"))
	}
	switch data {
	case 1:
		opts = append(opts, WithData(0))
	case 2:
		opts = append(opts, WithData(100000))
	}
	return Apply(context.Background(), rc, rSrc, opts...)
}

func ZZC13_apply() {
	w := zzBuildWorld()
	srcBefore := map[string]string{}
	for _, f := range zzos.Cur.Files() {
		b, _ := zzos.Cur.Data(f)
		srcBefore[f] = string(b)
	}
	rc := regclient.New()
	sameRepo := zzBool("same_repo")
	ann, label := zzBool("annotation"), zzBool("label")
	data := zzInt("data_option", 0, 2)
	rOut, err := zzApply(w, rc, sameRepo, ann, label, data)
	zzAssert(err == nil, "apply_succeeds")
	zzReach("applied")
	root := zzTgt
	if sameRepo {
		root = zzSrc
	}
	outDig := zzOutDigest(root, rOut)
	zzAssert(outDig != "", "result_resolves_to_a_digest")
	topMT := w.top.MediaType
	zzWellFormed(root, descriptor.Descriptor{MediaType: topMT, Digest: outDig, Size: zzSizeOf(root, outDig)}, 0)
	// the source image and its tag are untouched
	zzAssert(zzTagOf(zzSrc) == w.top.Digest, "source_tag_unchanged")
	for f, b := range srcBefore {
		got, ok := zzos.Cur.Data(f)
		if f == zzSrc+"/index.json" && sameRepo {
			continue
		}
		zzAssert(ok && string(got) == b, "source_content_unchanged")
	}
	// options that change nothing yield the original digest
	if !ann && !label && data == 0 {
		zzReach("noop")
		zzAssert(outDig == w.top.Digest, "no_op_options_yield_original_digest")
	}
	// determinism: the same options on the same input give the same digest
	rOut2, err2 := zzApply(w, rc, sameRepo, ann, label, data)
	zzAssert(err2 == nil && zzOutDigest(root, rOut2) == outDig, "same_options_same_digest")
}

// zzOutDigest resolves the reference Apply returned: its digest, or what its tag points to.
func zzOutDigest(root string, r ref.Ref) digest.Digest {
	if r.Digest != "" {
		return digest.Digest(r.Digest)
	}
	b, ok := zzos.Cur.Data(root + "/index.json")
	if !ok {
		return ""
	}
	var idx v1.Index
	if json.Unmarshal(b, &idx) != nil {
		return ""
	}
	for _, e := range idx.Manifests {
		if e.Annotations["org.opencontainers.image.ref.name"] == r.Tag {
			return e.Digest
		}
	}
	return ""
}

func zzSizeOf(root string, d digest.Digest) int64 {
	b, _ := zzos.Cur.Data(zzBlobFile(root, d))
	return int64(len(b))
}
