//zz:pkg mod
//zz:subst scheme/ocidir os
//zz:subst mod os
//zz:subst mod archive/tar@bytes
//zz:subst mod compress/gzip
//zz:subst mod github.com/klauspost/compress/zstd
//zz:subst pkg/archive compress/gzip
//zz:subst pkg/archive github.com/klauspost/compress/zstd
//zz:hook pkg/archive Compress
package mod

import (
	"bytes"
	"context"
	"encoding/json"
	"io"
	"time"

	"github.com/opencontainers/go-digest"

	"github.com/regclient/regclient"
	zzos "github.com/regclient/regclient/internal/zzos"
	tar "github.com/regclient/regclient/internal/zztarb"
	"github.com/regclient/regclient/pkg/archive"
	"github.com/regclient/regclient/types/descriptor"
	"github.com/regclient/regclient/types/mediatype"
	v1 "github.com/regclient/regclient/types/oci/v1"
	"github.com/regclient/regclient/types/platform"
	"github.com/regclient/regclient/types/ref"
)

// Options that re-pack layer archives, through the real mod.Apply: a single
// image with 1-2 layers, each an archive of 1-2 files (byte-level archive
// model zztarb; gzip and zstd are marker formats: real magic number + the
// plain bytes), stored uncompressed, gzip or zstd. A symbolic set of
// whole-layer options (re-compress to none/gzip/zstd, digest algorithm) and
// per-file options (file timestamps, strip a file) is applied. The result is
// re-derived from the stored bytes: every descriptor names existing content of
// that digest and size, the stored layer's compression is the one its media
// type states, diff-id i is the digest of the decompressed stored layer i, the
// files are the expected ones with the expected times, and the source is
// untouched.
var zzGzipMagic = []byte{0x1f, 0x8b, 0x08}
var zzZstdMagic = []byte{0x28, 0xb5, 0x2f, 0xfd}

func zzPack(b []byte, comp int) []byte {
	switch comp {
	case 1:
		return append(append([]byte{}, zzGzipMagic...), b...)
	case 2:
		return append(append([]byte{}, zzZstdMagic...), b...)
	}
	return b
}

// zzUnpack returns the plain bytes and the compression found (0 none, 1 gzip, 2 zstd).
func zzUnpack(b []byte) ([]byte, int) {
	if bytes.HasPrefix(b, zzGzipMagic) {
		return b[3:], 1
	}
	if bytes.HasPrefix(b, zzZstdMagic) {
		return b[4:], 2
	}
	return b, 0
}

func zzCompOfMT(mt string) int {
	switch mt {
	case mediatype.OCI1LayerGzip, mediatype.Docker2LayerGzip:
		return 1
	case mediatype.OCI1LayerZstd, mediatype.Docker2LayerZstd:
		return 2
	}
	return 0
}

func ZZC13_layer_files() {
	zzos.Reset()
	_ = zzos.MkdirAll("/tmp", 0o777) // os.CreateTemp("", ...) of the re-packing code
	archive.ZZHook_Compress = func(r io.Reader, t archive.CompressType) (io.ReadCloser, error) {
		b, err := io.ReadAll(r)
		if err != nil {
			return nil, err
		}
		switch t {
		case archive.CompressGzip:
			b = zzPack(b, 1)
		case archive.CompressZstd:
			b = zzPack(b, 2)
		case archive.CompressNone:
		default:
			return nil, archive.ErrUnknownType
		}
		return io.NopCloser(bytes.NewReader(b)), nil
	}
	w := &zzWorld{bytes: map[digest.Digest][]byte{}, mans: map[digest.Digest]bool{}}
	old := time.Unix(1000000, 0).UTC()
	cut := time.Unix(500000, 0).UTC()
	n := zzInt("n_layers", 1, 2)
	srcComp := zzInt("source_compression", 0, 2)
	mts := []string{mediatype.OCI1Layer, mediatype.OCI1LayerGzip, mediatype.OCI1LayerZstd}
	var layers []descriptor.Descriptor
	var files [][]tar.Entry
	cfg := v1.Image{Platform: platform.Platform{OS: "linux", Architecture: "amd64"}}
	cfg.RootFS.Type = "layers"
	for k := 0; k < n; k++ {
		es := []tar.Entry{{Hdr: tar.Header{Name: "keep" + string(rune('0'+k)), Typeflag: tar.TypeReg, Size: 2, Mode: 0o644, ModTime: old}, Data: []byte{'k', byte('0' + k)}}}
		if zzBool("layer_has_the_file_to_strip") {
			es = append(es, tar.Entry{Hdr: tar.Header{Name: "secret", Typeflag: tar.TypeReg, Size: 1, Mode: 0o600, ModTime: old}, Data: []byte{'s'}})
		}
		files = append(files, es)
		plain := tar.Marshal(es)
		l := w.put(zzPack(plain, srcComp), mts[srcComp], false)
		layers = append(layers, l)
		cfg.RootFS.DiffIDs = append(cfg.RootFS.DiffIDs, digest.FromBytes(plain))
		cfg.History = append(cfg.History, v1.History{CreatedBy: "L" + string(rune('0'+k))})
	}
	cb, _ := json.Marshal(cfg)
	cd := w.put(cb, mediatype.OCI1ImageConfig, false)
	mb, _ := json.Marshal(v1.Manifest{Versioned: v1.ManifestSchemaVersion, MediaType: mediatype.OCI1Manifest, Config: cd, Layers: layers})
	w.top = w.put(mb, mediatype.OCI1Manifest, true)
	top := w.top
	top.Annotations = map[string]string{"org.opencontainers.image.ref.name": "v1"}
	sb, _ := json.Marshal(v1.Index{Versioned: v1.IndexSchemaVersion, MediaType: mediatype.OCI1ManifestList, Manifests: []descriptor.Descriptor{top}})
	zzos.Cur.Put(zzSrc+"/oci-layout", []byte(`{"imageLayoutVersion":"1.0.0"}`))
	zzos.Cur.Put(zzSrc+"/index.json", sb)
	before := zzos.Cur.Files()

	// options (drawn once; the option list is built per Apply because the reader of an added layer is used up by it)
	sameRepo := zzBool("same_repo")
	wantComp := srcComp
	recompress := zzBool("recompress")
	if recompress {
		wantComp = zzInt("target_compression", 0, 2)
		for k := 0; k <= 2; k++ {
			if wantComp == k {
				wantComp = k
				break
			}
		}
	}
	alg := digest.SHA256
	if zzBool("sha512") {
		alg = digest.SHA512
	}
	setTime := zzBool("set_file_times")
	strip := zzBool("strip_file")
	addLayer := zzBool("add_layer")
	addComp := 0
	var addEntries []tar.Entry
	if addLayer {
		addComp = zzInt("added_layer_compression", 0, 2)
		addEntries = []tar.Entry{{Hdr: tar.Header{Name: "keep9", Typeflag: tar.TypeReg, Size: 2, Mode: 0o644, ModTime: old}, Data: []byte{'k', '9'}}}
		files = append(files, addEntries)
	}
	mkOpts := func() []Opts {
		var opts []Opts
		if !sameRepo {
			rT, _ := ref.New("ocidir://" + zzTgt + ":out")
			opts = append(opts, WithRefTgt(rT))
		}
		if recompress {
			opts = append(opts, WithLayerCompression([]archive.CompressType{archive.CompressNone, archive.CompressGzip, archive.CompressZstd}[wantComp]))
		}
		if alg != digest.SHA256 {
			opts = append(opts, WithDigestAlgo(alg))
		}
		if setTime {
			opts = append(opts, WithLayerTimestamp(OptTime{Set: cut, After: cut}))
		}
		if strip {
			opts = append(opts, WithLayerStripFile("secret"))
		}
		if addLayer {
			opts = append(opts, WithLayerAddTar(bytes.NewReader(tar.Marshal(addEntries)), mts[addComp], nil))
		}
		return opts
	}
	rc := regclient.New()
	rSrc, _ := ref.New("ocidir://" + zzSrc + ":v1")
	rOut, err := Apply(context.Background(), rc, rSrc, mkOpts()...)
	if err != nil {
		// a combination the tool refuses (loudly) produces no image: nothing to judge. (Known to
		// happen when a whole-layer option replaced a layer and a per-file option then finds
		// nothing to change in it.)
		zzReach("apply_refused")
		return
	}
	zzReach("layer_files_applied")
	root := zzTgt
	if sameRepo {
		root = zzSrc
	}
	// the source and its tag are untouched
	zzAssert(zzTagOf(zzSrc) == w.top.Digest, "source_tag_unchanged")
	for _, f := range before {
		if f == zzSrc+"/index.json" {
			continue
		}
		zzAssert(zzos.Cur.Exists(f), "source_content_untouched")
	}
	var outDig digest.Digest
	if rOut.Digest != "" {
		outDig = digest.Digest(rOut.Digest)
	} else {
		outDig = zzOutDigest(root, rOut)
	}
	zzAssert(outDig != "", "result_resolves_to_a_digest")
	ob, ok := zzos.Cur.Data(zzBlobFile(root, outDig))
	zzAssert(ok && outDig.Algorithm().FromBytes(ob) == outDig, "descriptor_names_existing_content")
	if !ok {
		return
	}
	var om v1.Manifest
	zzAssert(json.Unmarshal(ob, &om) == nil, "result_is_an_image_manifest")
	cbOut, ok := zzos.Cur.Data(zzBlobFile(root, om.Config.Digest))
	zzAssert(ok && om.Config.Digest.Algorithm().FromBytes(cbOut) == om.Config.Digest && om.Config.Size == int64(len(cbOut)), "descriptor_names_existing_content")
	var oc v1.Image
	zzAssert(ok && json.Unmarshal(cbOut, &oc) == nil, "result_config_parses")
	if addLayer {
		zzReach("layer_added")
		n++
	}
	zzAssert(len(om.Layers) == n, "layer_count_as_expected")
	zzAssert(len(oc.RootFS.DiffIDs) == len(om.Layers), "one_diff_id_per_layer")
	if !recompress && !setTime && !strip && !addLayer && alg == digest.SHA256 {
		zzReach("nothing_changed")
		zzAssert(outDig == w.top.Digest, "no_op_options_give_the_original_digest")
	}
	for i, l := range om.Layers {
		lb, ok := zzos.Cur.Data(zzBlobFile(root, l.Digest))
		zzAssert(ok, "descriptor_names_existing_content")
		if !ok {
			continue
		}
		zzAssert(l.Digest.Algorithm().FromBytes(lb) == l.Digest, "content_hashes_to_descriptor_digest")
		zzAssert(l.Size == int64(len(lb)), "descriptor_size_is_content_length")
		plain, comp := zzUnpack(lb)
		zzAssert(l.MediaType == mts[0] || l.MediaType == mts[1] || l.MediaType == mts[2], "layer_has_a_layer_media_type")
		zzAssert(comp == zzCompOfMT(l.MediaType), "layer_compression_is_what_its_media_type_states")
		if recompress {
			zzAssert(zzCompOfMT(l.MediaType) == wantComp, "requested_compression_applied")
		}
		if i < len(oc.RootFS.DiffIDs) {
			did := oc.RootFS.DiffIDs[i]
			zzAssert(did.Algorithm().FromBytes(plain) == did, "diff_id_is_the_digest_of_the_uncompressed_layer")
		}
		es, perr := tar.Unmarshal(plain)
		zzAssert(perr == nil, "stored_layer_is_an_archive")
		// expected members
		var wantNames []string
		if i >= len(files) {
			continue
		}
		for _, e := range files[i] {
			if strip && e.Hdr.Name == "secret" {
				continue
			}
			wantNames = append(wantNames, e.Hdr.Name)
		}
		zzAssert(len(es) == len(wantNames), "layer_members_are_the_expected_ones")
		for j := range es {
			if j < len(wantNames) {
				zzAssert(es[j].Hdr.Name == wantNames[j], "layer_members_are_the_expected_ones")
			}
			if es[j].Hdr.Name != "secret" {
				zzAssert(len(es[j].Data) == 2 && es[j].Data[0] == 'k', "member_content_kept")
			}
			if setTime {
				zzAssert(!es[j].Hdr.ModTime.After(cut), "file_times_clamped")
			} else {
				zzAssert(es[j].Hdr.ModTime.Equal(old), "file_times_kept")
			}
		}
	}
	// the same options on the same input give the same digest
	if zzBool("apply_again") {
		rOut2, err2 := Apply(context.Background(), rc, rSrc, mkOpts()...)
		zzAssert(err2 == nil, "second_apply_succeeds")
		if err2 == nil {
			zzReach("applied_twice")
			d2 := digest.Digest(rOut2.Digest)
			if rOut2.Digest == "" {
				d2 = zzOutDigest(root, rOut2)
			}
			zzAssert(d2 == outDig, "same_options_same_digest")
		}
	}
}
