//zz:pkg mod
//zz:subst scheme/ocidir os
package mod

import (
	"bytes"
	"context"
	"encoding/json"
	"regexp"

	"github.com/opencontainers/go-digest"

	"github.com/regclient/regclient"
	zzos "github.com/regclient/regclient/internal/zzos"
	"github.com/regclient/regclient/types/descriptor"
	"github.com/regclient/regclient/types/mediatype"
	v1 "github.com/regclient/regclient/types/oci/v1"
	"github.com/regclient/regclient/types/platform"
	"github.com/regclient/regclient/types/ref"
)

// Layer-changing options through the real mod.Apply / dagPut: a single image
// with 1-3 distinct uncompressed layers (so a layer's diff-id is the digest of
// the layer blob itself), a config whose history interleaves a symbolic
// pattern of empty-layer entries with one entry per layer, and a symbolic
// sequence of "append a layer" / "remove the layer at index i" options. The
// result is re-derived from the stored bytes: layers = kept originals in order
// followed by the added ones, diff-ids = their digests position by position,
// the non-empty history entries line up one to one with the layers (kept
// entries name their own layer, added ones are regclient's), empty entries
// all survive in order.

type zzLayerOp struct {
	add bool
	idx int // remove: index among the original layers; add: serial of the new layer
}

func ZZC13_layers() {
	zzos.Reset()
	w := &zzWorld{bytes: map[digest.Digest][]byte{}, mans: map[digest.Digest]bool{}}
	n := zzInt("n_layers", 1, 3)
	hasHist := zzBool("has_history")
	hasDiff := zzBool("has_diff_ids")
	var layers []descriptor.Descriptor
	cfg := v1.Image{Platform: platform.Platform{OS: "linux", Architecture: "amd64"}}
	cfg.RootFS.Type = "layers"
	for k := 0; k < n; k++ {
		l := w.put([]byte{'L', byte('0' + k)}, mediatype.OCI1Layer, false)
		layers = append(layers, l)
		if hasDiff {
			cfg.RootFS.DiffIDs = append(cfg.RootFS.DiffIDs, l.Digest)
		}
		if hasHist {
			if zzBool("empty_before") {
				cfg.History = append(cfg.History, v1.History{CreatedBy: "E" + string(rune('0'+k)), EmptyLayer: true})
			}
			cfg.History = append(cfg.History, v1.History{CreatedBy: "L" + string(rune('0'+k))})
		}
	}
	if hasHist && zzBool("empty_last") {
		cfg.History = append(cfg.History, v1.History{CreatedBy: "E9", EmptyLayer: true})
	}
	cb, _ := json.Marshal(cfg)
	cd := w.put(cb, mediatype.OCI1ImageConfig, false)
	mb, _ := json.Marshal(v1.Manifest{Versioned: v1.ManifestSchemaVersion, MediaType: mediatype.OCI1Manifest, Config: cd, Layers: layers})
	w.top = w.put(mb, mediatype.OCI1Manifest, true)
	top := w.top
	top.Annotations = map[string]string{"org.opencontainers.image.ref.name": "v1"}
	sb, _ := json.Marshal(v1.Index{Versioned: v1.IndexSchemaVersion, MediaType: mediatype.OCI1ManifestList, Manifests: []descriptor.Descriptor{top}})
	zzos.Cur.Put(zzSrc+"/oci-layout", []byte(`{"imageLayoutVersion":"1.0.0"}`))
	zzos.Cur.Put(zzSrc+"/index.json", sb)

	// the option sequence
	nOps := zzInt("n_ops", 1, 2+zzTier())
	var ops []zzLayerOp
	var opts []Opts
	sameRepo := zzBool("same_repo")
	if !sameRepo {
		rT, _ := ref.New("ocidir://" + zzTgt + ":out")
		opts = append(opts, WithRefTgt(rT))
	}
	nAdd := 0
	removed := map[int]bool{}
	for o := 0; o < nOps; o++ {
		if zzBool("op_is_add") {
			ops = append(ops, zzLayerOp{add: true, idx: nAdd})
			opts = append(opts, WithLayerAddTar(bytes.NewReader([]byte{'A', byte('0' + nAdd)}), mediatype.OCI1Layer, nil))
			nAdd++
		} else {
			i := zzInt("rm_index", 0, n-1)
			for k := 0; k < n; k++ { // case split: the index is concrete from here on
				if i == k {
					i = k
					break
				}
			}
			ops = append(ops, zzLayerOp{idx: i})
			if hasHist && zzBool("rm_by_created_by") {
				// the same removal addressed through the history text of the layer
				opts = append(opts, WithLayerRmCreatedBy(*regexp.MustCompile("^L" + string(rune('0'+i)) + "$")))
			} else {
				opts = append(opts, WithLayerRmIndex(i))
			}
			removed[i] = true
		}
	}
	if len(removed) == n && nAdd == 0 {
		return // an image without layers is not in scope
	}
	rc := regclient.New()
	rSrc, _ := ref.New("ocidir://" + zzSrc + ":v1")
	rOut, err := Apply(context.Background(), rc, rSrc, opts...)
	zzAssert(err == nil, "layer_options_apply")
	if err != nil {
		return
	}
	zzReach("layers_applied")
	root := zzTgt
	if sameRepo {
		root = zzSrc
	}
	outDig := zzOutDigest(root, rOut)
	zzAssert(outDig != "", "result_resolves_to_a_digest")
	zzWellFormed(root, descriptor.Descriptor{MediaType: mediatype.OCI1Manifest, Digest: outDig, Size: zzSizeOf(root, outDig)}, 0)
	zzAssert(zzTagOf(zzSrc) == w.top.Digest, "source_tag_unchanged")

	// expected layer sequence
	var want []digest.Digest
	var wantHist []string // CreatedBy of the non-empty entries; "" for an added layer
	for k := 0; k < n; k++ {
		if !removed[k] {
			want = append(want, layers[k].Digest)
			wantHist = append(wantHist, "L"+string(rune('0'+k)))
		}
	}
	for a := 0; a < nAdd; a++ {
		want = append(want, digest.FromBytes([]byte{'A', byte('0' + a)}))
		wantHist = append(wantHist, "")
	}
	ob, _ := zzos.Cur.Data(zzBlobFile(root, outDig))
	var om v1.Manifest
	zzAssert(json.Unmarshal(ob, &om) == nil, "result_manifest_parses")
	zzAssert(len(om.Layers) == len(want), "result_has_the_expected_layers")
	if len(om.Layers) != len(want) {
		return
	}
	for i := range want {
		zzAssert(om.Layers[i].Digest == want[i], "result_has_the_expected_layers")
	}
	gb, ok := zzos.Cur.Data(zzBlobFile(root, om.Config.Digest))
	zzAssert(ok, "config_present")
	var oc v1.Image
	zzAssert(json.Unmarshal(gb, &oc) == nil, "config_parses")
	if hasDiff {
		zzReach("diff_ids_checked")
		zzAssert(len(oc.RootFS.DiffIDs) == len(want), "diff_ids_one_per_layer")
		if len(oc.RootFS.DiffIDs) == len(want) {
			for i := range want {
				// uncompressed layers: the diff-id is the digest of the layer blob
				zzAssert(oc.RootFS.DiffIDs[i] == want[i], "diff_id_is_digest_of_the_uncompressed_layer")
			}
		}
	}
	if hasHist {
		zzReach("history_checked")
		var got []string
		var empties []string
		for _, h := range oc.History {
			if h.EmptyLayer {
				empties = append(empties, h.CreatedBy)
				continue
			}
			got = append(got, h.CreatedBy)
		}
		zzAssert(len(got) == len(want), "non_empty_history_one_per_layer")
		if len(got) == len(want) {
			for i := range got {
				zzAssert(got[i] == wantHist[i], "history_entry_belongs_to_its_layer")
			}
		}
		var wantE []string
		for _, h := range cfg.History {
			if h.EmptyLayer {
				wantE = append(wantE, h.CreatedBy)
			}
		}
		zzAssert(len(empties) == len(wantE), "empty_history_entries_survive")
		if len(empties) == len(wantE) {
			for i := range wantE {
				zzAssert(empties[i] == wantE[i], "empty_history_entries_survive")
			}
		}
	}
	if nAdd > 0 && len(removed) > 0 {
		zzReach("added_and_removed_in_one_apply")
	}
}
