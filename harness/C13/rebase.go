//zz:pkg mod
//zz:subst scheme/ocidir os
package mod

import (
	"context"
	"encoding/json"
	"time"

	"github.com/opencontainers/go-digest"

	"github.com/regclient/regclient"
	zzos "github.com/regclient/regclient/internal/zzos"
	"github.com/regclient/regclient/types/descriptor"
	"github.com/regclient/regclient/types/mediatype"
	v1 "github.com/regclient/regclient/types/oci/v1"
	"github.com/regclient/regclient/types/platform"
	"github.com/regclient/regclient/types/ref"
)

// Rebase (WithRebaseRefs): an application image built on an old base (1-2
// layers) is moved onto a new base (1-2 layers). Both bases carry a history
// whose empty-layer entries follow a symbolic pattern. The result read back
// from storage has the new base's layers followed by the application's, the
// diff-ids of exactly those layers, and a history whose non-empty entries line
// up one to one with the layers: the new base's lines, then the application's.

type zzBuilt struct {
	desc    descriptor.Descriptor
	layers  []descriptor.Descriptor
	history []v1.History
}

func zzRebaseImage(w *zzWorld, pfx byte, n int, under *zzBuilt, tag string, index *v1.Index) *zzBuilt {
	created := time.Unix(1700000000, 0).UTC()
	b := &zzBuilt{}
	cfg := v1.Image{Platform: platform.Platform{OS: "linux", Architecture: "amd64"}}
	cfg.RootFS.Type = "layers"
	if under != nil {
		b.layers = append(b.layers, under.layers...)
		b.history = append(b.history, under.history...)
	}
	for k := 0; k < n; k++ {
		if zzBool("empty_before") {
			b.history = append(b.history, v1.History{Created: &created, CreatedBy: "E" + string(pfx) + string(rune('0'+k)), EmptyLayer: true})
		}
		l := w.put([]byte{pfx, byte('0' + k)}, mediatype.OCI1Layer, false)
		b.layers = append(b.layers, l)
		b.history = append(b.history, v1.History{Created: &created, CreatedBy: string(pfx) + string(rune('0'+k))})
	}
	if zzBool("empty_last") {
		b.history = append(b.history, v1.History{Created: &created, CreatedBy: "E" + string(pfx) + "9", EmptyLayer: true})
	}
	for _, l := range b.layers {
		cfg.RootFS.DiffIDs = append(cfg.RootFS.DiffIDs, l.Digest)
	}
	cfg.History = b.history
	cb, _ := json.Marshal(cfg)
	cd := w.put(cb, mediatype.OCI1ImageConfig, false)
	mb, _ := json.Marshal(v1.Manifest{Versioned: v1.ManifestSchemaVersion, MediaType: mediatype.OCI1Manifest, Config: cd, Layers: b.layers})
	b.desc = w.put(mb, mediatype.OCI1Manifest, true)
	e := b.desc
	e.Annotations = map[string]string{"org.opencontainers.image.ref.name": tag}
	index.Manifests = append(index.Manifests, e)
	return b
}

func ZZC13_rebase() {
	zzos.Reset()
	w := &zzWorld{bytes: map[digest.Digest][]byte{}, mans: map[digest.Digest]bool{}}
	idx := v1.Index{Versioned: v1.IndexSchemaVersion, MediaType: mediatype.OCI1ManifestList}
	old := zzRebaseImage(w, 'O', zzInt("old_base_layers", 1, 2), nil, "old", &idx)
	nw := zzRebaseImage(w, 'N', zzInt("new_base_layers", 1, 2), nil, "new", &idx)
	app := zzRebaseImage(w, 'A', 1+zzTier(), old, "v1", &idx)
	w.top = app.desc
	sb, _ := json.Marshal(idx)
	zzos.Cur.Put(zzSrc+"/oci-layout", []byte(`{"imageLayoutVersion":"1.0.0"}`))
	zzos.Cur.Put(zzSrc+"/index.json", sb)
	rc := regclient.New()
	rSrc, _ := ref.New("ocidir://" + zzSrc + ":v1")
	rOld, _ := ref.New("ocidir://" + zzSrc + ":old")
	rNew, _ := ref.New("ocidir://" + zzSrc + ":new")
	opts := []Opts{WithRebaseRefs(rOld, rNew)}
	sameRepo := zzBool("same_repo")
	if !sameRepo {
		rT, _ := ref.New("ocidir://" + zzTgt + ":out")
		opts = append(opts, WithRefTgt(rT))
	}
	rOut, err := Apply(context.Background(), rc, rSrc, opts...)
	zzAssert(err == nil, "rebase_applies")
	if err != nil {
		return
	}
	zzReach("rebased")
	root := zzTgt
	if sameRepo {
		root = zzSrc
	}
	outDig := zzOutDigest(root, rOut)
	zzAssert(outDig != "", "result_resolves_to_a_digest")
	zzWellFormed(root, descriptor.Descriptor{MediaType: mediatype.OCI1Manifest, Digest: outDig, Size: zzSizeOf(root, outDig)}, 0)
	// expected layers and history
	var want []digest.Digest
	var wantHist []v1.History
	for _, l := range nw.layers {
		want = append(want, l.Digest)
	}
	for _, l := range app.layers[len(old.layers):] {
		want = append(want, l.Digest)
	}
	wantHist = append(wantHist, nw.history...)
	wantHist = append(wantHist, app.history[len(old.history):]...)
	ob, _ := zzos.Cur.Data(zzBlobFile(root, outDig))
	var om v1.Manifest
	zzAssert(json.Unmarshal(ob, &om) == nil, "result_manifest_parses")
	zzAssert(len(om.Layers) == len(want), "rebased_layers_are_new_base_then_application")
	if len(om.Layers) != len(want) {
		return
	}
	for i := range want {
		zzAssert(om.Layers[i].Digest == want[i], "rebased_layers_are_new_base_then_application")
	}
	gb, ok := zzos.Cur.Data(zzBlobFile(root, om.Config.Digest))
	zzAssert(ok, "config_present")
	var oc v1.Image
	zzAssert(json.Unmarshal(gb, &oc) == nil, "config_parses")
	zzAssert(len(oc.RootFS.DiffIDs) == len(want), "diff_ids_one_per_layer")
	if len(oc.RootFS.DiffIDs) == len(want) {
		for i := range want {
			zzAssert(oc.RootFS.DiffIDs[i] == want[i], "diff_id_is_digest_of_the_uncompressed_layer")
		}
	}
	nonEmpty := 0
	for _, h := range oc.History {
		if !h.EmptyLayer {
			nonEmpty++
		}
	}
	zzAssert(nonEmpty == len(want), "non_empty_history_one_per_layer")
	zzAssert(len(oc.History) == len(wantHist), "rebased_history_is_new_base_then_application")
	if len(oc.History) == len(wantHist) {
		for i := range wantHist {
			zzAssert(oc.History[i].CreatedBy == wantHist[i].CreatedBy && oc.History[i].EmptyLayer == wantHist[i].EmptyLayer, "rebased_history_is_new_base_then_application")
		}
	}
}
