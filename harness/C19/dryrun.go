//zz:pkg cmd/regbot/sandbox
//zz:subst cmd/regbot/sandbox github.com/yuin/gopher-lua
//zz:subst cmd/regbot/sandbox github.com/regclient/regclient/cmd/regbot/internal/go2lua
//zz:subst cmd/regbot/sandbox os
//zz:subst scheme/ocidir os
//zz:subst . archive/tar
package sandbox

import (
	"context"
	"encoding/json"
	"io"
	"log/slog"
	"path"
	"strings"

	"github.com/opencontainers/go-digest"

	"github.com/regclient/regclient"
	"github.com/regclient/regclient/internal/pqueue"
	zzos "github.com/regclient/regclient/internal/zzos"
	lua "github.com/regclient/regclient/internal/zzlua"
	zztar "github.com/regclient/regclient/internal/zztar"
	"github.com/regclient/regclient/types/descriptor"
	"github.com/regclient/regclient/types/mediatype"
	"github.com/regclient/regclient/types/platform"
	v1 "github.com/regclient/regclient/types/oci/v1"
	"github.com/regclient/regclient/types/ref"
)

const zzLayout = "/lay"

func zzPutBlob19(root string, b []byte) descriptor.Descriptor {
	d := digest.FromBytes(b)
	zzos.Cur.Put(path.Join(root, "blobs", d.Algorithm().String(), d.Encoded()), b)
	return descriptor.Descriptor{Digest: d, Size: int64(len(b))}
}

// zzSeedLayout installs a layout with one image tagged v1 and an index of it tagged multi.
func zzSeedLayout() {
	zzos.Reset()
	cfg := zzPutBlob19(zzLayout, []byte(`{"architecture":"amd64","os":"linux"}`))
	cfg.MediaType = mediatype.OCI1ImageConfig
	layer := zzPutBlob19(zzLayout, []byte("layer"))
	layer.MediaType = mediatype.OCI1LayerGzip
	mb, _ := json.Marshal(v1.Manifest{Versioned: v1.ManifestSchemaVersion, MediaType: mediatype.OCI1Manifest, Config: cfg, Layers: []descriptor.Descriptor{layer}})
	m := zzPutBlob19(zzLayout, mb)
	m.MediaType = mediatype.OCI1Manifest
	m.Annotations = map[string]string{"org.opencontainers.image.ref.name": "v1"}
	// a multi-platform index over the same image, tagged "multi"
	child := m
	child.Annotations = nil
	child.Platform = &platform.Platform{OS: "linux", Architecture: "amd64"}
	xb, _ := json.Marshal(v1.Index{Versioned: v1.IndexSchemaVersion, MediaType: mediatype.OCI1ManifestList, Manifests: []descriptor.Descriptor{child}})
	x := zzPutBlob19(zzLayout, xb)
	x.MediaType = mediatype.OCI1ManifestList
	x.Annotations = map[string]string{"org.opencontainers.image.ref.name": "multi"}
	ib, _ := json.Marshal(v1.Index{Versioned: v1.IndexSchemaVersion, MediaType: mediatype.OCI1ManifestList, Manifests: []descriptor.Descriptor{m, x}})
	zzos.Cur.Put(zzLayout+"/oci-layout", []byte(`{"imageLayoutVersion":"1.0.0"}`))
	zzos.Cur.Put(zzLayout+"/index.json", ib)
}

// zzCall runs one binding; script errors (RaiseError/ArgError) end it like
// they end a script.
func zzCall(ls *lua.LState, fn func(*lua.LState) int, args ...lua.LValue) (rets []lua.LValue, failed bool) {
	ls.SetTop(0)
	for _, a := range args {
		ls.Push(a)
	}
	n := 0
	func() {
		defer func() {
			if r := recover(); r != nil {
				if _, ok := r.(*lua.ApiError); ok {
					failed = true
					return
				}
				panic(r)
			}
		}()
		n = fn(ls)
	}()
	if failed {
		return nil, true
	}
	for i := n; i > 0; i-- {
		rets = append(rets, ls.Get(-i))
	}
	return rets, false
}

// Every binding of the scripting API, called with arbitrary arguments drawn
// from a pool (references as strings and userdata, manifests, configs,
// strings, tables, nil) on layouts that already hold an image: with dry-run
// set, no file of any layout is created, modified or removed.
func ZZC19_bindings() {
	zzSeedLayout()
	// an importable archive for image.importTar: export the seeded image first
	rcSetup := regclient.New()
	rSeed, _ := ref.New("ocidir://" + zzLayout + ":v1")
	zztar.Output = nil
	fh, _ := zzos.Create("/export.tar")
	errX := rcSetup.ImageExport(context.Background(), rSeed, fh)
	zzAssert(errX == nil, "setup_export_succeeds")
	zztar.Input = zztar.Output
	zzos.Cur.Put("/import.tar", []byte("tar"))

	// the throttle all scripts of a run share (regbot builds one with Max = parallel, 1 by default)
	pq := pqueue.New(pqueue.Opts[struct{}]{Max: 1})
	s := New("zz", WithRegClient(regclient.New()), WithSlog(slog.New(slog.NewTextHandler(io.Discard, nil))), WithThrottle(pq))
	ls := s.ls
	// argument pool
	refUD, f1 := zzCall(ls, s.newReference, lua.LString("ocidir://"+zzLayout+":v1"))
	manUD, f2 := zzCall(ls, s.manifestGet, lua.LString("ocidir://"+zzLayout+":v1"))
	cfgUD, f3 := zzCall(ls, s.configGet, lua.LString("ocidir://"+zzLayout+":v1"))
	zzAssert(!f1 && !f2 && !f3 && len(refUD) == 1 && len(manUD) == 1 && len(cfgUD) == 1, "setup_reads_succeed")
	// blob handles: from blob.head (no reader) and blob.get (with reader) of the seeded layer
	layerDig := digest.FromBytes([]byte("layer")).String()
	bhUD, f4 := zzCall(ls, s.blobHead, lua.LString("ocidir://"+zzLayout+":v1"), lua.LString(layerDig))
	bgUD, f5 := zzCall(ls, s.blobGet, lua.LString("ocidir://"+zzLayout+":v1"), lua.LString(layerDig))
	zzAssert(!f4 && !f5 && len(bhUD) >= 1 && len(bgUD) >= 1, "setup_blob_reads_succeed")
	// a manifest list handle (image methods raise an error on it)
	listUD, f6 := zzCall(ls, s.manifestGetList, lua.LString("ocidir://"+zzLayout+":multi"))
	zzAssert(!f6 && len(listUD) == 1, "setup_list_read_succeeds")
	pool := []lua.LValue{
		listUD[0],
		lua.LString("ocidir://" + zzLayout + ":multi"),
		lua.LString("ocidir://" + zzLayout + ":v1"),
		lua.LString("ocidir://" + zzLayout + ":v2"),
		lua.LString("ocidir:///new:v1"),
		refUD[0], manUD[0], cfgUD[0], bhUD[0], bgUD[0],
		lua.LString("/import.tar"),
		lua.LString(zzLayout + "/index.json"), // a file name that happens to be a file of the layout
		ls.NewTable(),
		lua.LNil,
	}
	bindings := []func(*lua.LState) int{
		s.blobGet, s.blobHead, s.blobPut,
		s.configGet, s.configExport, s.configJSON,
		s.imageCopy, s.imageExportTar, s.imageImportTar, s.imageRateLimit,
		s.manifestDelete, s.manifestExport, s.manifestGet, s.manifestGetList, s.manifestHead, s.manifestJSON, s.manifestPut,
		s.newReference, s.closeReference, s.referenceString, s.referenceGetSetDigest, s.referenceGetSetTag,
		s.repoLs, s.sandboxLog, s.tagDelete, s.tagLs,
	}
	names := []string{"blob.get", "blob.head", "blob.put", "image.config", "image.configExport", "image.configJSON",
		"image.copy", "image.exportTar", "image.importTar", "image.ratelimit",
		"manifest.delete", "manifest.export", "manifest.get", "manifest.getList", "manifest.head", "manifest.json", "manifest.put",
		"reference.new", "reference.close", "reference.string", "reference.digest", "reference.tag", "repo.ls", "log", "tag.delete", "tag.ls"}
	_ = names
	k := zzInt("binding", 0, len(bindings)-1)
	zzAssume(k != 22) // repo.ls addresses a registry host (network); it issues a GET only and is left out
	a1 := pool[zzInt("arg1", 0, len(pool)-1)]
	a2 := pool[zzInt("arg2", 0, len(pool)-1)]
	args := []lua.LValue{a1, a2}
	if zzBool("third_arg") {
		args = append(args, ls.NewTable())
	}
	s.dryRun = zzBool("dry_run")
	touched := 0
	zzos.Cur.Observer = func(op zzos.Op) {
		if strings.HasPrefix(op.Path, zzLayout) || strings.HasPrefix(op.Path, "/new") || strings.HasPrefix(op.Path2, zzLayout) || strings.HasPrefix(op.Path2, "/new") {
			touched++
		}
	}
	_, failed := zzCall(ls, bindings[k], args...)
	zzos.Cur.Observer = nil
	zzReach("binding_returned")
	if !failed {
		zzReach("binding_succeeded")
	}
	if touched > 0 {
		zzReach("binding_changed_a_layout")
	}
	// whatever the call did - returned or raised an error - it holds no slot of the shared
	// throttle afterwards, so the remaining scripts can run
	done, terr := pq.TryAcquire(context.Background(), struct{}{})
	zzAssert(terr == nil && done != nil, "binding_leaves_the_shared_throttle_free")
	if done != nil {
		done()
	}
	if failed {
		zzReach("binding_raised_an_error")
	}
	if s.dryRun {
		switch k {
		case 2:
			zzAssert(touched == 0, "dry_run_blob_put_changes_nothing")
		case 7:
			zzAssert(touched == 0, "dry_run_image_export_changes_nothing")
		case 8:
			zzAssert(touched == 0, "dry_run_image_import_changes_nothing")
		case 16:
			zzAssert(touched == 0, "dry_run_manifest_put_changes_nothing")
		default:
			zzAssert(touched == 0, "dry_run_changes_nothing")
		}
	}
}
