//zz:pkg .
//zz:subst scheme/ocidir os
//zz:hook internal/reghttp Client.Do
//zz:use zzreg
package regclient

import (
	"context"
	"io"
	"log/slog"
	"net/http"

	"github.com/opencontainers/go-digest"

	"github.com/regclient/regclient/internal/reghttp"
	zzos "github.com/regclient/regclient/internal/zzos"
	"github.com/regclient/regclient/internal/zzreg"
	"github.com/regclient/regclient/scheme/reg"
	"github.com/regclient/regclient/types/descriptor"
	"github.com/regclient/regclient/types/ref"
)

// Wiring of the verified reader: RegClient.BlobGet on a registry and on an OCI
// layout, for a descriptor with a valid digest (size known or unknown, inline
// data absent / right / wrong), when the store serves arbitrary bytes of
// arbitrary length under that digest: reading to a clean end of stream is only
// possible when the delivered bytes are the ones the digest names.
func ZZC01_blobget_wiring() {
	want := []byte("abc")
	alg := digest.SHA256
	if zzBool("sha512") {
		alg = digest.SHA512
	}
	d := descriptor.Descriptor{MediaType: "application/octet-stream", Digest: alg.FromBytes(want)}
	// stated size: 0 = unknown, otherwise any value (a descriptor may lie about the size)
	d.Size = int64(zzInt("stated_size", 0, 5))
	// what the store really holds under that digest
	n := zzInt("served_len", 0, 4+zzTier())
	for k := 0; k <= 4+zzTier(); k++ { // case split: concrete length from here on
		if n == k {
			n = k
			break
		}
	}
	served := zzBytes("served", n)
	// inline data in the descriptor: none, or arbitrary bytes (must be verified before use)
	if d.Size > 0 && zzBool("inline_data") {
		m := zzInt("inline_len", 0, 4)
		for k := 0; k <= 4; k++ {
			if m == k {
				m = k
				break
			}
		}
		d.Data = zzBytes("inline", m)
	}
	rc := New(WithRegOpts(reg.WithTransport(&http.Transport{})), WithSlog(slog.New(slog.NewTextHandler(io.Discard, nil))))
	var r ref.Ref
	if zzBool("registry") {
		rg := zzreg.New("a.example")
		rg.Repo("repo").Blobs[d.Digest.String()] = served
		reghttp.ZZHook_Client_Do = rg.Do
		r, _ = ref.New("a.example/repo")
	} else {
		zzos.Reset()
		zzos.Cur.Put("/lay/oci-layout", []byte(`{"imageLayoutVersion":"1.0.0"}`))
		zzos.Cur.Put("/lay/index.json", []byte(`{"schemaVersion":2,"manifests":[]}`))
		zzos.Cur.Put("/lay/blobs/"+string(alg)+"/"+d.Digest.Encoded(), served)
		r, _ = ref.New("ocidir:///lay")
	}
	br, err := rc.BlobGet(context.Background(), r, d)
	if err != nil {
		zzReach("get_refused")
		return
	}
	var out []byte
	for k := 0; k < 4+zzTier(); k++ {
		buf := make([]byte, zzInt("buflen", 1, 3))
		nr, rerr := br.Read(buf)
		out = append(out, buf[:nr]...)
		if rerr == io.EOF {
			zzReach("clean_eof")
			zzAssert(string(out) == string(want), "clean_read_delivers_the_named_content")
			zzAssert(d.Size == 0 || d.Size == int64(len(out)), "clean_read_has_the_stated_size")
			return
		}
		if rerr != nil {
			zzReach("read_error")
			return
		}
	}
	zzReach("still_open")
}
