//zz:pkg types/blob
package blob

import (
	"io"

	"github.com/opencontainers/go-digest"

	"github.com/regclient/regclient/types/descriptor"
)

// zzSymReader is an arbitrary io.Reader (optionally an io.Seeker): every call
// returns a symbolic count, symbolic bytes and a symbolic error.
type zzSymReader struct {
	seekable bool
	seeks    int
}

func (r *zzSymReader) Read(p []byte) (int, error) {
	n := zzInt("rn", 0, len(p))
	for i := 0; i < n; i++ {
		p[i] = zzByte("rb")
	}
	switch zzInt("rerr", 0, 2) {
	case 1:
		return n, io.EOF
	case 2:
		return n, io.ErrUnexpectedEOF
	}
	return n, nil
}

type zzSymSeeker struct{ zzSymReader }

func (r *zzSymSeeker) Seek(offset int64, whence int) (int64, error) {
	r.seeks++
	o := zzInt("seek_off", 0, 2)
	if zzBool("seek_err") {
		return int64(o), io.ErrClosedPipe
	}
	return int64(o), nil
}

func zzAlg() digest.Algorithm {
	if zzBool("sha512") {
		return digest.SHA512
	}
	return digest.SHA256
}

// Stream: whatever the underlying reader does, a clean end of stream (io.EOF,
// the io.ReadAll / io.Copy notion of success) is only reported when the bytes
// delivered to the caller hash to the descriptor digest and, for a known
// size, number exactly that many.
func ZZC01_breader_stream() {
	alg := zzAlg()
	d := digest.Digest(zzDigest("d", string(alg)))
	S := zzInt("size", 0, 4+2*zzTier())
	src := &zzSymReader{}
	br := NewReader(WithDesc(descriptor.Descriptor{Digest: d, Size: int64(S)}), WithReader(src))
	var out []byte
	K := 3 + zzTier()
	for k := 0; k < K; k++ {
		bl := zzInt("buflen", 0, 2+zzTier())
		buf := make([]byte, bl)
		n, err := br.Read(buf)
		zzAssert(n >= 0 && n <= bl, "n_in_buffer")
		out = append(out, buf[:n]...)
		if err == io.EOF {
			zzReach("clean_eof")
			zzAssert(alg.FromBytes(out) == d, "clean_implies_digest")
			zzAssert(S == 0 || len(out) == S, "clean_implies_size")
			return
		}
		if err != nil {
			zzReach("error")
			return
		}
	}
	zzReach("still_open")
}

// Rewind: after Seek(0, SeekStart) returned (0, nil) only the bytes delivered
// after the rewind count, and the same guarantee holds for them.
func ZZC01_breader_seek() {
	alg := zzAlg()
	d := digest.Digest(zzDigest("d", string(alg)))
	S := zzInt("size", 0, 3+zzTier())
	src := &zzSymSeeker{}
	br := NewReader(WithDesc(descriptor.Descriptor{Digest: d, Size: int64(S)}), WithReader(src))
	var out []byte
	K := 3 + zzTier()
	rewound := false
	for k := 0; k < K; k++ {
		if !rewound && zzBool("do_seek") {
			o, err := br.Seek(0, io.SeekStart)
			if err == nil && o == 0 {
				zzReach("rewound")
				rewound = true
				out = nil
			} else {
				// a failed rewind must not pretend the stream restarted
				zzReach("seek_failed")
				zzAssert(err != nil || o != 0, "seek_failure_visible")
				return
			}
		}
		bl := zzInt("buflen", 0, 2)
		buf := make([]byte, bl)
		n, err := br.Read(buf)
		out = append(out, buf[:n]...)
		if err == io.EOF {
			zzReach("clean_eof")
			if rewound {
				zzReach("clean_eof_after_rewind")
			}
			zzAssert(alg.FromBytes(out) == d, "clean_implies_digest")
			zzAssert(S == 0 || len(out) == S, "clean_implies_size")
			return
		}
		if err != nil {
			return
		}
	}
	zzReach("still_open")
}

// Second pass: a read that ended in an error (mismatch, short, over-long) does
// not change what the reader verifies against. After a rewind - or by simply
// reading on - a clean end of stream still means the delivered bytes are the
// ones the descriptor names, and the descriptor the reader reports keeps the
// digest the caller asked for.
func ZZC01_breader_second_pass() {
	alg := digest.SHA256
	if zzTier() > 0 {
		alg = zzAlg()
	}
	d := digest.Digest(zzDigest("d", string(alg)))
	S := zzInt("size", 0, 1+zzTier())
	src := &zzSymSeeker{}
	br := NewReader(WithDesc(descriptor.Descriptor{Digest: d, Size: int64(S)}), WithReader(src))
	var out []byte
	K := 2
	failed := false
	for pass := 0; pass < 2; pass++ {
		for k := 0; k < K; k++ {
			bl := zzInt("buflen", 1, 2)
			buf := make([]byte, bl)
			n, err := br.Read(buf)
			out = append(out, buf[:n]...)
			if err == io.EOF {
				zzReach("clean_eof")
				if failed {
					zzReach("clean_eof_after_a_failed_pass")
				}
				zzAssert(alg.FromBytes(out) == d, "clean_implies_digest")
				zzAssert(S == 0 || len(out) == S, "clean_implies_size")
				zzAssert(br.GetDescriptor().Digest == d, "reported_digest_is_the_requested_one")
				return
			}
			if err != nil {
				failed = true
				zzAssert(br.GetDescriptor().Digest == d, "failed_read_keeps_the_requested_digest")
				break
			}
		}
		if !failed || pass == 1 {
			return
		}
		if zzBool("rewind") {
			o, err := br.Seek(0, io.SeekStart)
			if err != nil || o != 0 {
				return
			}
			out = nil
		}
	}
}

// zzBoundedReader: an arbitrary reader for callers that read until EOF
// themselves (io.ReadAll): at most two bytes per call, and the stream ends
// (EOF or failure) by the K-th call at the latest.
type zzBoundedReader struct{ calls, max int }

func (r *zzBoundedReader) Read(p []byte) (int, error) {
	r.calls++
	lim := 2
	if len(p) < lim {
		lim = len(p)
	}
	n := zzInt("rn", 0, lim)
	for i := 0; i < n; i++ {
		p[i] = zzByte("rb")
	}
	e := zzInt("rerr", 0, 2)
	if r.calls >= r.max && e == 0 {
		e = 1
	}
	switch e {
	case 1:
		return n, io.EOF
	case 2:
		return n, io.ErrUnexpectedEOF
	}
	return n, nil
}

// Tar form of a blob: RawBody reads the stream to its end. It returns without
// error only with bytes that hash to the descriptor digest and, for a stated
// size, number exactly that many - whether the tar reader was made directly or
// converted from the reader BlobGet returns.
func ZZC01_tarreader_rawbody() {
	alg := zzAlg()
	d := digest.Digest(zzDigest("d", string(alg)))
	S := zzInt("size", 0, 4+zzTier())
	src := &zzBoundedReader{max: 3 + zzTier()}
	desc := descriptor.Descriptor{Digest: d, Size: int64(S)}
	var tr *BTarReader
	if zzBool("converted_from_reader") {
		br := NewReader(WithDesc(desc), WithReader(src))
		t, err := br.ToTarReader()
		zzAssert(err == nil, "unread_reader_converts")
		tr = t
	} else {
		tr = NewTarReader(WithDesc(desc), WithReader(src))
	}
	b, err := tr.RawBody()
	if err != nil {
		zzReach("error")
		return
	}
	zzReach("clean")
	zzAssert(alg.FromBytes(b) == d, "raw_body_implies_digest")
	zzAssert(S == 0 || len(b) == S, "raw_body_implies_size")
	zzAssert(tr.GetDescriptor().Digest == d, "descriptor_digest_kept")
}
