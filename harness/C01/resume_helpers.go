//zz:pkg internal/reghttp
package reghttp

import (
	"io"
	"log/slog"
	"net/http"
	"time"

	"github.com/regclient/regclient/config"
	"github.com/regclient/regclient/internal/auth"
)

// ZZNewClientRT returns a client for the single host "reg.example" whose
// requests go to the given RoundTripper (no TLS / transport set-up).
func ZZNewClientRT(rt http.RoundTripper, retry int) *Client {
	c := NewClient(WithRetryLimit(retry), WithDelay(time.Millisecond, 4*time.Millisecond))
	lg := slog.New(slog.NewTextHandler(io.Discard, nil))
	cfg := &config.Host{Name: "reg.example", Hostname: "reg.example", TLS: config.TLSEnabled}
	c.host["reg.example"] = &clientHost{config: cfg, httpClient: &http.Client{Transport: &wrapTransport{c: c, orig: rt}}, auth: map[string]*auth.Auth{}, slog: lg}
	return c
}
