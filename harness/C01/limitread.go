//zz:pkg internal/limitread
package limitread

import (
	"errors"
	"io"

	"github.com/regclient/regclient/types/errs"
)

// zzSymReader is an arbitrary io.Reader: every call returns a symbolic count,
// symbolic bytes and a symbolic error.
type zzSymReader struct {
	calls int
	total int
	max   int
}

func (r *zzSymReader) Read(p []byte) (int, error) {
	r.calls++
	n := zzInt("rn", 0, len(p))
	for i := 0; i < n; i++ {
		p[i] = zzByte("rb")
	}
	r.total += n
	switch zzInt("rerr", 0, 2) {
	case 1:
		return n, io.EOF
	case 2:
		return n, io.ErrUnexpectedEOF
	}
	return n, nil
}

// LimitRead alone: no error of its own while the cumulative count <= limit;
// the call that crosses the limit returns ErrSizeLimitExceeded; it never
// reports more bytes than the underlying reader produced or the buffer holds.
func ZZC01_limitread() {
	K := 3 + zzTier()
	limit := zzInt("limit", 0, 6+zzTier()*2)
	src := &zzSymReader{}
	lr := &LimitRead{Reader: src, Limit: int64(limit)}
	got := 0
	for k := 0; k < K; k++ {
		bl := zzInt("buflen", 0, 3+zzTier())
		buf := make([]byte, bl)
		before := src.total
		n, err := lr.Read(buf)
		zzAssert(n >= 0 && n <= bl, "n_in_buffer")
		zzAssert(n == src.total-before, "n_is_what_source_gave")
		got += n
		if got > limit {
			zzReach("crossed")
			zzAssert(err != nil && errors.Is(err, errs.ErrSizeLimitExceeded), "crossing_call_errors")
			return
		}
		if err != nil {
			zzReach("source_error")
			zzAssert(!errors.Is(err, errs.ErrSizeLimitExceeded), "no_limit_error_within_limit")
			return
		}
	}
	zzReach("within_limit")
}
