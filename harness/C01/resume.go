//zz:pkg scheme/reg
package reg

import (
	"context"
	"io"
	"log/slog"
	"net/http"
	"strconv"
	"strings"

	"github.com/opencontainers/go-digest"

	"github.com/regclient/regclient/internal/reghttp"
	"github.com/regclient/regclient/types/descriptor"
	"github.com/regclient/regclient/types/ref"
)

// zzDropNet serves one blob over a connection that may drop: the first reply
// carries a symbolic Content-Length and breaks off after a symbolic number of
// bytes; every range resume is answered from a symbolic offset (the right one
// or another), with or without a Content-Range header, with the blob's bytes
// or substituted ones, and may break off again.
type zzDropNet struct {
	content string
	calls   int
	subAt   int // the call that serves substituted bytes (0: none)
}

type zzDropBody struct {
	data string
	off  int
	full bool // false: the connection drops after data
}

func (b *zzDropBody) Read(p []byte) (int, error) {
	if b.off >= len(b.data) {
		if b.full {
			return 0, io.EOF
		}
		return 0, io.ErrUnexpectedEOF
	}
	n := copy(p, b.data[b.off:])
	b.off += n
	return n, nil
}

func (n *zzDropNet) RoundTrip(req *http.Request) (*http.Response, error) {
	n.calls++
	h := http.Header{}
	src := n.content
	if n.calls == n.subAt {
		src = strings.Repeat("X", len(n.content))
	}
	start := 0
	status := 200
	if rg := req.Header.Get("Range"); rg != "" {
		status = 206
		asked, _ := strconv.Atoi(strings.SplitN(strings.TrimPrefix(rg, "bytes="), "-", 2)[0])
		start = asked
		if zzBool("resume_from_another_offset") {
			start = zzInt("resume_offset", 0, len(src))
		}
		if !zzBool("no_content_range") {
			h.Set("Content-Range", "bytes "+strconv.Itoa(start)+"-"+strconv.Itoa(len(src)-1)+"/"+strconv.Itoa(len(src)))
		}
		h.Set("Content-Length", strconv.Itoa(len(src)-start))
	} else {
		cl := len(src)
		if zzBool("wrong_content_length") {
			cl = zzInt("content_length", 0, len(src)+1)
		}
		h.Set("Content-Length", strconv.Itoa(cl))
	}
	if start > len(src) {
		start = len(src)
	}
	rest := src[start:]
	sent := len(rest)
	if n.calls <= 2 && zzBool("connection_drops") {
		sent = zzInt("sent_before_drop", 0, len(rest))
	}
	for k := 0; k <= len(rest); k++ { // case split: concrete count from here on
		if sent == k {
			sent = k
			break
		}
	}
	body := &zzDropBody{data: rest[:sent], full: sent == len(rest)}
	return &http.Response{StatusCode: status, Status: strconv.Itoa(status), Header: h, Body: io.NopCloser(body), Request: req}, nil
}

// Blob download over a dropping connection with range resumes (the real
// Reg.BlobGet, reghttp Do / Resp.Read / next and the verified blob reader on
// top): whatever the server does with offsets, lengths and bytes, reading to a
// clean end of stream delivers exactly the blob the descriptor names.
func ZZC01_resume() {
	content := "abc"
	net := &zzDropNet{content: content, subAt: zzInt("substituted_bytes_at_call", 0, 2)}
	rg := New(WithSlog(slog.New(slog.NewTextHandler(io.Discard, nil))))
	rg.reghttp = reghttp.ZZNewClientRT(net, 2)
	d := descriptor.Descriptor{MediaType: "application/octet-stream", Digest: digest.FromString(content)}
	if zzBool("size_known") {
		d.Size = int64(len(content))
	}
	r, _ := ref.New("reg.example/repo")
	br, err := rg.BlobGet(context.Background(), r, d)
	if err != nil {
		zzReach("resume_get_refused")
		return
	}
	var out []byte
	bl := zzInt("buflen", 1, 3) // one buffer size per run
	for k := 0; k < 7; k++ {
		buf := make([]byte, bl)
		nr, rerr := br.Read(buf)
		out = append(out, buf[:nr]...)
		if rerr == io.EOF {
			zzReach("resume_clean_eof")
			if net.calls > 1 {
				zzReach("resume_clean_eof_after_a_resume")
			}
			zzAssert(string(out) == content, "clean_read_delivers_the_named_content")
			return
		}
		if rerr != nil {
			zzReach("resume_read_error")
			return
		}
	}
	zzReach("resume_still_open")
}
