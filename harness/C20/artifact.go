//zz:pkg cmd/regctl
//zz:subst cmd/regctl os
//zz:subst pkg/archive os
//zz:subst pkg/archive archive/tar
//zz:subst scheme/ocidir os
//zz:hook cmd/regctl rootOpts.newRegClient
package main

import (
	"context"
	"io"
	"log/slog"
	"strings"

	"github.com/opencontainers/go-digest"
	"github.com/spf13/cobra"

	"github.com/regclient/regclient"
	zzos "github.com/regclient/regclient/internal/zzos"
	zztar "github.com/regclient/regclient/internal/zztar"
)

// regctl artifact get -o <dir> [--strip-dirs]: an artifact in a layout whose
// single layer carries a fully symbolic title annotation (file or directory
// form, optionally the unpack annotation) and, for directories, a tar with one
// entry. Whatever the title says, everything created lies inside the output
// directory and a file beside it keeps its content.
func ZZC20_artifact_get() {
	zzos.Reset()
	const lay, out = "/lay", "/w/o"
	title := zzString("title", zzInt("title_len", 0, 4+zzTier()))
	unpack := zzBool("unpack_annotation")
	layer := []byte("tar-or-file-content")
	ld := digest.FromBytes(layer)
	ann := `"org.opencontainers.image.title":"` + zzJSONSafe(title) + `"`
	if unpack {
		ann += `,"io.deis.oras.content.unpack":"true"`
	}
	cfg := []byte("{}")
	cd := digest.FromBytes(cfg)
	man := []byte(`{"schemaVersion":2,"mediaType":"application/vnd.oci.image.manifest.v1+json","artifactType":"application/example","config":{"mediaType":"application/vnd.oci.empty.v1+json","digest":"` + cd.String() + `","size":2},"layers":[{"mediaType":"application/octet-stream","digest":"` + ld.String() + `","size":` + zzItoa(len(layer)) + `,"annotations":{` + ann + `}}]}`)
	md := digest.FromBytes(man)
	zzos.Cur.Put(lay+"/oci-layout", []byte(`{"imageLayoutVersion":"1.0.0"}`))
	zzos.Cur.Put(lay+"/blobs/sha256/"+ld.Encoded(), layer)
	zzos.Cur.Put(lay+"/blobs/sha256/"+cd.Encoded(), cfg)
	zzos.Cur.Put(lay+"/blobs/sha256/"+md.Encoded(), man)
	zzos.Cur.Put(lay+"/index.json", []byte(`{"schemaVersion":2,"mediaType":"application/vnd.oci.image.index.v1+json","manifests":[{"mediaType":"application/vnd.oci.image.manifest.v1+json","digest":"`+md.String()+`","size":`+zzItoa(len(man))+`,"annotations":{"org.opencontainers.image.ref.name":"v1"}}]}`))
	zzos.Cur.Put(out+"/.keep", nil)
	zzos.Cur.Put("/w/victim.txt", []byte("original"))
	// when the layer is unpacked as a directory the tar holds one file
	zztar.Input = []zztar.Entry{{Hdr: zztar.Header{Name: "victim.txt", Typeflag: zztar.TypeReg, Size: 3, Mode: 0644}, Data: []byte("new")}}
	lg := slog.New(slog.NewTextHandler(io.Discard, nil))
	ZZHook_rootOpts_newRegClient = func(o *rootOpts) *regclient.RegClient { return regclient.New(regclient.WithSlog(lg)) }
	ro := &rootOpts{log: lg}
	opts := &artifactOpts{rootOpts: ro, outputDir: out, stripDirs: zzBool("strip_dirs")}
	cmd := &cobra.Command{}
	cmd.SetContext(context.Background())
	zzos.Cur.Mark()
	err := opts.runArtifactGet(cmd, []string{"ocidir://" + lay + ":v1"})
	zzReach("artifact_get_returned")
	if err == nil {
		zzReach("artifact_get_succeeded")
	}
	for _, op := range zzos.Cur.Trace {
		switch op.Kind {
		case "open", "read", "stat":
			continue
		}
		p := op.Path
		if strings.HasPrefix(p, lay) {
			continue
		}
		zzReach("artifact_get_wrote")
		zzAssert(p == out || strings.HasPrefix(p, out+"/"), "artifact_output_stays_inside_the_output_directory")
		if op.Path2 != "" {
			zzAssert(op.Path2 == out || strings.HasPrefix(op.Path2, out+"/"), "artifact_output_stays_inside_the_output_directory")
		}
	}
	b, ok := zzos.Cur.Data("/w/victim.txt")
	zzAssert(ok && string(b) == "original", "file_beside_the_output_directory_untouched")
}

// zzJSONSafe keeps the annotation a valid JSON string: quote, backslash and
// control characters are excluded from the title alphabet.
func zzJSONSafe(s string) string {
	for i := 0; i < len(s); i++ {
		zzAssume(s[i] >= 0x20 && s[i] != '"' && s[i] != '\\' && s[i] < 0x7f)
	}
	return s
}

func zzItoa(n int) string {
	if n == 0 {
		return "0"
	}
	s := ""
	for n > 0 {
		s = string(rune('0'+n%10)) + s
		n /= 10
	}
	return s
}
