//zz:pkg cmd/regctl
//zz:subst cmd/regctl os
//zz:subst pkg/archive os
//zz:subst pkg/archive archive/tar
//zz:subst scheme/ocidir os
//zz:hook cmd/regctl rootOpts.newRegClient
//zz:hook internal/reghttp Client.Do
//zz:use zzreg
package main

import (
	"context"
	"io"
	"log/slog"
	"net/http"
	"strings"

	"github.com/opencontainers/go-digest"
	"github.com/spf13/cobra"

	"github.com/regclient/regclient"
	"github.com/regclient/regclient/internal/reghttp"
	zzos "github.com/regclient/regclient/internal/zzos"
	"github.com/regclient/regclient/internal/zzreg"
	zztar "github.com/regclient/regclient/internal/zztar"
	"github.com/regclient/regclient/scheme/reg"
)

// regctl artifact get -o <dir> from a hostile registry: the manifest's layer
// names its blob by a digest string that is not a digest (path elements after
// the colon, or none at all) and the registry serves something under exactly
// that name; the title is empty, ordinary, or one that cleans to the root, or
// a short symbolic string. Whatever title and digest say, everything created
// lies inside the output directory.
func ZZC20_artifact_get_registry() {
	zzos.Reset()
	const out = "/w/o"
	srv := zzreg.New("reg.example")
	reghttp.ZZHook_Client_Do = srv.Do
	layer := []byte("tar-or-file-content")
	ld := digest.FromBytes(layer).String()
	hostile := []string{ld, "sha256:../../escaped", "sha256:..", "sha256:../" + "x", "..:..", "sha256:a/../../../e"}
	dg := hostile[zzInt("layer_digest", 0, len(hostile)-1)]
	var title string
	switch k := zzInt("title_kind", 0, 6); k {
	case 0:
		title = ""
	case 1:
		title = "."
	case 2:
		title = ".."
	case 3:
		title = "/"
	case 4:
		title = "sub/.."
	case 5:
		title = "name.txt"
	default:
		title = zzJSONSafe(zzString("title", zzInt("title_len", 1, 2)))
	}
	unpack := zzBool("unpack_annotation")
	ann := `"org.opencontainers.image.title":"` + title + `"`
	if unpack {
		ann += `,"io.deis.oras.content.unpack":"true"`
	}
	cfg := []byte("{}")
	cd := srv.PutBlob("repo", cfg)
	srv.Repo("repo").Blobs[dg] = layer
	man := []byte(`{"schemaVersion":2,"mediaType":"application/vnd.oci.image.manifest.v1+json","artifactType":"application/example","config":{"mediaType":"application/vnd.oci.empty.v1+json","digest":"` + cd + `","size":2},"layers":[{"mediaType":"application/octet-stream","digest":"` + dg + `","size":` + zzItoa(len(layer)) + `,"annotations":{` + ann + `}}]}`)
	srv.ValidateRefs = false
	srv.PutManifest("repo", "v1", "application/vnd.oci.image.manifest.v1+json", man)
	zzos.Cur.Put(out+"/.keep", nil)
	zzos.Cur.Put("/w/victim.txt", []byte("original"))
	zztar.Input = []zztar.Entry{{Hdr: zztar.Header{Name: "victim.txt", Typeflag: zztar.TypeReg, Size: 3, Mode: 0644}, Data: []byte("new")}}
	lg := slog.New(slog.NewTextHandler(io.Discard, nil))
	ZZHook_rootOpts_newRegClient = func(o *rootOpts) *regclient.RegClient {
		return regclient.New(regclient.WithSlog(lg), regclient.WithRegOpts(reg.WithTransport(&http.Transport{})))
	}
	ro := &rootOpts{log: lg}
	opts := &artifactOpts{rootOpts: ro, outputDir: out, stripDirs: zzBool("strip_dirs")}
	cmd := &cobra.Command{}
	cmd.SetContext(context.Background())
	zzos.Cur.Mark()
	err := opts.runArtifactGet(cmd, []string{"reg.example/repo:v1"})
	zzReach("registry_artifact_get_returned")
	if err == nil {
		zzReach("registry_artifact_get_succeeded")
	}
	for _, op := range zzos.Cur.Trace {
		switch op.Kind {
		case "open", "read", "stat":
			continue
		}
		zzReach("registry_artifact_get_wrote")
		zzAssert(op.Path == out || strings.HasPrefix(op.Path, out+"/"), "artifact_output_stays_inside_the_output_directory")
		if op.Path2 != "" {
			zzAssert(op.Path2 == out || strings.HasPrefix(op.Path2, out+"/"), "artifact_output_stays_inside_the_output_directory")
		}
	}
	b, ok := zzos.Cur.Data("/w/victim.txt")
	zzAssert(ok && string(b) == "original", "file_beside_the_output_directory_untouched")
}
