//zz:pkg pkg/archive
//zz:subst pkg/archive os
//zz:subst pkg/archive archive/tar
package archive

import (
	"bytes"
	"context"
	"strings"

	zzos "github.com/regclient/regclient/internal/zzos"
	zztar "github.com/regclient/regclient/internal/zztar"
)

const zzOut = "/o" // short, so that a sibling sharing the name as a prefix (../oX) fits the name bound

// zzInside: the path is the output directory or lies below it and has no
// ".." component.
func zzInside(p string) bool {
	if p != zzOut && !strings.HasPrefix(p, zzOut+"/") {
		return false
	}
	for _, c := range strings.Split(p, "/") {
		if c == ".." {
			return false
		}
	}
	return true
}

// Archive extraction: whatever names, link targets and entry types the
// archive carries, everything created lies inside the chosen directory, and
// link entries create nothing.
func ZZC20_extract() {
	zzos.Reset()
	zzos.Cur.Put(zzOut+"/.keep", nil)
	zzos.Cur.Put("/etc/passwd", []byte("root"))
	zzos.Cur.Mark()
	n := zzInt("entries", 1, 1+zzTier())
	zztar.Input = nil
	links := 0
	for i := 0; i < n; i++ {
		maxLen := 5 + zzTier()
		if i > 0 {
			maxLen = 3 // a second entry (thorough) is short: it can still be ".", "..", "../" or a name the first one created
		}
		name := zzString("name", zzInt("name_len", 0, maxLen))
		h := zztar.Header{Name: name, Mode: 0644}
		switch zzInt("type", 0, 3) {
		case 0:
			h.Typeflag = zztar.TypeReg
			h.Size = 1
		case 1:
			h.Typeflag = zztar.TypeDir
		case 2:
			h.Typeflag = zztar.TypeSymlink
			h.Linkname = "/etc"
			links++
		case 3:
			h.Typeflag = zztar.TypeLink
			h.Linkname = "../../etc/passwd"
			links++
		}
		zztar.Input = append(zztar.Input, zztar.Entry{Hdr: h, Data: []byte("x")})
	}
	_ = Extract(context.Background(), zzOut, bytes.NewReader(nil))
	zzReach("extracted")
	for _, op := range zzos.Cur.Trace {
		zzAssert(zzInside(op.Path), "created_path_inside_output_dir")
		if op.Kind == "rename" {
			zzAssert(zzInside(op.Path2), "renamed_path_inside_output_dir")
		}
	}
	if links == n {
		zzReach("only_links")
		zzAssert(len(zzos.Cur.Trace) == 0, "link_entries_create_nothing")
	}
	d, _ := zzos.Cur.Data("/etc/passwd")
	zzAssert(string(d) == "root", "files_outside_untouched")
}
