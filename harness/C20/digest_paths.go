//zz:pkg scheme/ocidir
//zz:subst scheme/ocidir os
package ocidir

import (
	"bytes"
	"context"
	"strings"

	"github.com/opencontainers/go-digest"

	zzos "github.com/regclient/regclient/internal/zzos"
	"github.com/regclient/regclient/scheme"
	"github.com/regclient/regclient/types/descriptor"
	"github.com/regclient/regclient/types/manifest"
	"github.com/regclient/regclient/types/mediatype"
	v1 "github.com/regclient/regclient/types/oci/v1"
	"github.com/regclient/regclient/types/ref"
)

// Every layout operation that takes a digest, called with a hostile digest
// string (algorithm part and encoded part are symbolic short strings, so
// "../" segments, separators and empty parts are all in reach): no file
// outside the layout directory is opened, read, created, renamed or removed,
// and a file beside the layout keeps its content.
func ZZC20_digest_paths() {
	zzos.Reset()
	const lay = "/w/lay"
	zzos.Cur.Put(lay+"/oci-layout", []byte(`{"imageLayoutVersion":"1.0.0"}`))
	zzos.Cur.Put(lay+"/index.json", []byte(`{"schemaVersion":2,"mediaType":"application/vnd.oci.image.index.v1+json","manifests":[]}`))
	zzos.Cur.Put("/w/victim", []byte("original"))
	zzos.Cur.Put("/w/lay/blobs/sha256/.keep", nil)
	alg := "sha256"
	if zzBool("hostile_algorithm") {
		alg = zzString("alg", zzInt("alg_len", 0, 3))
	}
	enc := zzString("enc", zzInt("enc_len", 0, 4+2*zzTier()))
	dg := alg + ":" + enc
	r, _ := ref.New("ocidir://" + lay)
	rd := r
	rd.Digest = dg // as SetDigest / AddDigest do for a digest taken from a descriptor: no validation
	d := descriptor.Descriptor{MediaType: mediatype.OCI1Manifest, Digest: digest.Digest(dg), Size: 2}
	m, err := manifest.New(manifest.WithOrig(v1.Manifest{Versioned: v1.ManifestSchemaVersion, MediaType: mediatype.OCI1Manifest,
		Config: descriptor.Descriptor{MediaType: mediatype.OCI1Empty, Digest: digest.FromBytes([]byte("{}")), Size: 2}, Layers: []descriptor.Descriptor{}}))
	zzAssert(err == nil, "manifest_builds")
	o := New()
	ctx := context.Background()
	inside := func(p string) bool { return p == lay || strings.HasPrefix(p, lay+"/") }
	zzos.Cur.MayFail = func(op, name string) bool {
		zzAssert(inside(name), "layout_operation_touches_only_its_own_directory")
		return false
	}
	zzos.Cur.Mark()
	switch zzInt("operation", 0, 8) {
	case 0:
		_ = o.ManifestDelete(ctx, rd, scheme.WithManifest(m))
	case 1:
		_ = o.ManifestDelete(ctx, rd)
	case 2:
		_, _ = o.ManifestGet(ctx, rd)
	case 3:
		_, _ = o.ManifestHead(ctx, rd)
	case 4:
		_ = o.ManifestPut(ctx, rd, m)
	case 5:
		_, _ = o.BlobGet(ctx, r, d)
	case 6:
		_, _ = o.BlobHead(ctx, r, d)
	case 7:
		_ = o.BlobDelete(ctx, r, d)
	case 8:
		_, _ = o.BlobPut(ctx, r, d, bytes.NewReader([]byte("{}")))
	}
	zzos.Cur.MayFail = nil
	zzReach("digest_operation_returned")
	for _, op := range zzos.Cur.Trace {
		zzAssert(inside(op.Path) && (op.Path2 == "" || inside(op.Path2)), "layout_operation_touches_only_its_own_directory")
	}
	b, ok := zzos.Cur.Data("/w/victim")
	zzAssert(ok && string(b) == "original", "file_beside_the_layout_untouched")
}
