//zz:pkg internal/reghttp
package reghttp

import (
	"context"
	"io"
	"net/http"
	"net/url"

	"github.com/regclient/regclient/config"
	"github.com/regclient/regclient/internal/auth"
)

// ZZNewClient returns a client whose host table is pre-populated, so that
// the back-off bookkeeping of Resp works without TLS/transport setup.
func ZZNewClient() *Client {
	c := NewClient()
	c.host[""] = &clientHost{config: &config.Host{}, auth: map[string]*auth.Auth{}}
	return c
}

// ZZNewResp builds the response a model server hands back through the
// ZZHook_Client_Do seam.
func ZZNewResp(c *Client, ctx context.Context, req *Req, u *url.URL, status int, hdr http.Header, body io.Reader, bodyLen int64) *Resp {
	if hdr == nil {
		hdr = http.Header{}
	}
	if body == nil {
		body = http.NoBody
	}
	return &Resp{
		ctx:    ctx,
		client: c,
		req:    req,
		resp: &http.Response{
			StatusCode: status,
			Header:     hdr,
			Body:       io.NopCloser(body),
			Request:    &http.Request{Method: req.Method, URL: u},
		},
		reader:  body,
		readMax: bodyLen,
	}
}
