//zz:pkg scheme/ocidir
//zz:subst scheme/ocidir os
package ocidir

import (
	"bytes"
	"context"
	"encoding/json"
	"path"
	"strings"

	"github.com/opencontainers/go-digest"

	zzos "github.com/regclient/regclient/internal/zzos"
	"github.com/regclient/regclient/scheme"
	"github.com/regclient/regclient/types/descriptor"
	"github.com/regclient/regclient/types/manifest"
	"github.com/regclient/regclient/types/mediatype"
	v1 "github.com/regclient/regclient/types/oci/v1"
	"github.com/regclient/regclient/types/ref"
)

const zzLay = "/lay"

const zzMarker = `{"imageLayoutVersion":"1.0.0"}`

func zzTagC(name string) string {
	t := zzString(name, 1)
	zzAssume(t[0] >= 'a' && t[0] <= 'd')
	return t
}

// zzManifest builds a real OCI image manifest whose config digest is chosen
// by id, so that different ids give different manifests.
func zzManifest(id int) manifest.Manifest {
	cfg := []byte(`{"id":` + string(rune('0'+id)) + `}`)
	m, err := manifest.New(manifest.WithOrig(v1.Manifest{
		Versioned: v1.ManifestSchemaVersion,
		MediaType: mediatype.OCI1Manifest,
		Config:    descriptor.Descriptor{MediaType: mediatype.OCI1ImageConfig, Digest: digest.FromBytes(cfg), Size: int64(len(cfg))},
		Layers:    []descriptor.Descriptor{},
	}))
	zzAssert(err == nil, "manifest_builds")
	return m
}

type zzPre struct {
	r    ref.Ref
	tags []string
	digs []digest.Digest
}

// zzPopulated installs either an empty directory or a valid layout holding
// up to two tagged manifests (real manifest files under blobs/).
func zzPopulated() *zzPre {
	zzos.Reset()
	p := &zzPre{}
	r, err := ref.New("ocidir://" + zzLay)
	zzAssert(err == nil, "ref_parses")
	p.r = r
	if zzBool("empty_dir") {
		zzos.Cur.Mark()
		return p
	}
	idx := indexCreate()
	n := zzInt("pre_n", 0, 2)
	for i := 0; i < n; i++ {
		m := zzManifest(i)
		b, _ := m.RawBody()
		d := m.GetDescriptor()
		t := zzTagC("pre_tag")
		for _, o := range p.tags {
			zzAssume(o != t)
		}
		d.Annotations = map[string]string{aOCIRefName: t}
		idx.Manifests = append(idx.Manifests, d)
		zzos.Cur.Put(path.Join(zzLay, "blobs", d.Digest.Algorithm().String(), d.Digest.Encoded()), b)
		p.tags = append(p.tags, t)
		p.digs = append(p.digs, d.Digest)
	}
	zzos.Cur.Put(zzLay+"/oci-layout", []byte(zzMarker))
	ib, _ := json.Marshal(idx)
	zzos.Cur.Put(zzLay+"/index.json", ib)
	zzos.Cur.Mark()
	return p
}

// zzValidLayout is the independent judge: is the directory a readable
// layout in which every stored object is intact and the given tags resolve
// to the given digests.
func zzValidLayout(p *zzPre, wasLayout bool, skipTag string, pfx string) {
	fs := zzos.Cur
	marker, hasMarker := fs.Data(zzLay + "/oci-layout")
	ib, hasIndex := fs.Data(zzLay + "/index.json")
	if wasLayout {
		zzAssert(hasMarker && bytes.Equal(marker, []byte(zzMarker)), pfx+"_marker_intact")
		zzAssert(hasIndex, pfx+"_index_present")
	} else if hasMarker {
		// a directory that was not a layout before: a marker may only appear complete
		zzAssert(bytes.Equal(marker, []byte(zzMarker)), pfx+"_new_marker_complete")
	}
	var idx v1.Index
	if hasIndex {
		zzAssert(json.Unmarshal(ib, &idx) == nil, pfx+"_index_is_complete_json")
	}
	for _, f := range fs.Files() {
		dir := path.Dir(f)
		if path.Dir(dir) != zzLay+"/blobs" || strings.HasSuffix(f, ".tmp") {
			continue
		}
		data, _ := fs.Data(f)
		alg := digest.Algorithm(path.Base(dir))
		zzAssert(alg.FromBytes(data).Encoded() == path.Base(f), pfx+"_blob_matches_its_name")
	}
	for i, t := range p.tags {
		if t == skipTag {
			continue
		}
		d, err := indexGet(idx, p.r.SetTag(t))
		zzAssert(err == nil && d.Digest == p.digs[i], pfx+"_other_tags_unchanged")
	}
	for _, e := range idx.Manifests {
		if _, tagged := e.Annotations[aOCIRefName]; tagged {
			zzAssert(fs.Exists(path.Join(zzLay, "blobs", e.Digest.Algorithm().String(), e.Digest.Encoded())), pfx+"_tagged_manifest_present")
		}
	}
}

// zzCrash picks a crash point in the recorded trace, rebuilds the file
// system as it was at that instant, and judges it.
func zzCrash(p *zzPre, wasLayout bool, skipTag string, pfx string) {
	n := len(zzos.Cur.Trace)
	k := zzInt("crash_at", 0, n)
	torn := zzInt("torn", -1, 3)
	zzos.Cur.CrashAt(k, torn)
	zzReach(pfx + "_crashed")
	if k < n {
		zzReach(pfx + "_crashed_midway")
	}
	zzValidLayout(p, wasLayout, skipTag, pfx)
}

func ZZC07_crash_manifest_put() {
	p := zzPopulated()
	wasLayout := zzos.Cur.Exists(zzLay + "/oci-layout")
	o := New()
	m := zzManifest(7)
	tag := zzTagC("tag")
	rr := p.r.SetTag(tag)
	if zzBool("by_digest") {
		rr = p.r.SetDigest(m.GetDescriptor().Digest.String())
		tag = ""
	}
	err := o.ManifestPut(context.Background(), rr, m)
	zzAssert(err == nil, "mp_put_succeeds")
	if tag != "" {
		// a completed operation is fully visible
		idx, e2 := o.readIndex(p.r, false)
		d, e3 := indexGet(idx, rr)
		zzAssert(e2 == nil && e3 == nil && d.Digest == m.GetDescriptor().Digest, "mp_completed_put_visible")
	}
	zzCrash(p, wasLayout, tag, "mp")
	// repeating the interrupted operation brings the layout to the intended state
	o2 := New()
	zzAssert(o2.ManifestPut(context.Background(), rr, m) == nil, "mp_repeat_succeeds")
	zzAssert(zzos.Cur.Exists(path.Join(zzLay, "blobs", "sha256", m.GetDescriptor().Digest.Encoded())), "mp_repeat_reaches_the_intended_state")
	if tag != "" {
		idx, e2 := o2.readIndex(p.r, false)
		d, e3 := indexGet(idx, rr)
		zzAssert(e2 == nil && e3 == nil && d.Digest == m.GetDescriptor().Digest, "mp_repeat_reaches_the_intended_state")
	}
	zzValidLayout(p, true, tag, "mp_after_repeat")
}

func ZZC07_crash_blob_put() {
	p := zzPopulated()
	wasLayout := zzos.Cur.Exists(zzLay + "/oci-layout")
	o := New()
	content := zzBytes("blob", zzInt("blob_len", 0, 3))
	d := descriptor.Descriptor{}
	if zzBool("declared") {
		d.Digest = digest.FromBytes(content)
		d.Size = int64(len(content))
	}
	_, err := o.BlobPut(context.Background(), p.r, d, bytes.NewReader(content))
	zzAssert(err == nil, "bp_put_succeeds")
	zzCrash(p, wasLayout, "", "bp")
}

func ZZC07_crash_tag_delete() {
	p := zzPopulated()
	if len(p.tags) == 0 {
		return
	}
	o := New()
	victim := p.tags[zzInt("victim", 0, len(p.tags)-1)]
	err := o.TagDelete(context.Background(), p.r.SetTag(victim))
	zzAssert(err == nil, "tdc_delete_succeeds")
	zzCrash(p, true, victim, "tdc")
	o2 := New()
	err = o2.TagDelete(context.Background(), p.r.SetTag(victim))
	idx, e2 := o2.readIndex(p.r, false)
	_, e3 := indexGet(idx, p.r.SetTag(victim))
	// (a repeat after the delete had already completed reports not found: the tag is gone either way)
	zzAssert(e2 == nil && e3 != nil, "tdc_repeat_reaches_the_intended_state")
	_ = err
	zzValidLayout(p, true, victim, "tdc_after_repeat")
}

func ZZC07_crash_manifest_delete() {
	p := zzPopulated()
	if len(p.tags) == 0 {
		return
	}
	o := New()
	i := zzInt("victim", 0, len(p.tags)-1)
	err := o.ManifestDelete(context.Background(), p.r.SetDigest(p.digs[i].String()))
	zzAssert(err == nil, "mdc_delete_succeeds")
	// the tags that pointed at the deleted manifest are its target: exempt them
	kept := &zzPre{r: p.r}
	for j := range p.tags {
		if p.digs[j] != p.digs[i] {
			kept.tags = append(kept.tags, p.tags[j])
			kept.digs = append(kept.digs, p.digs[j])
		}
	}
	zzCrash(kept, true, "", "mdc")
	o2 := New()
	_ = o2.ManifestDelete(context.Background(), p.r.SetDigest(p.digs[i].String()))
	zzAssert(!zzos.Cur.Exists(path.Join(zzLay, "blobs", "sha256", p.digs[i].Encoded())), "mdc_repeat_reaches_the_intended_state")
	idx, e2 := o2.readIndex(p.r, false)
	zzAssert(e2 == nil, "mdc_repeat_reaches_the_intended_state")
	for _, e := range idx.Manifests {
		zzAssert(e.Digest != p.digs[i], "mdc_repeat_reaches_the_intended_state")
	}
	zzValidLayout(kept, true, "", "mdc_after_repeat")
}

// zzArtifactC builds artifact i with the given subject.
func zzArtifactC(i int, subject descriptor.Descriptor) manifest.Manifest {
	cfg := []byte{'{', '}'}
	m, err := manifest.New(manifest.WithOrig(v1.Manifest{
		Versioned:    v1.ManifestSchemaVersion,
		MediaType:    mediatype.OCI1Manifest,
		ArtifactType: "application/example.sig",
		Config:       descriptor.Descriptor{MediaType: mediatype.OCI1Empty, Digest: digest.FromBytes(cfg), Size: 2},
		Layers:       []descriptor.Descriptor{},
		Subject:      &subject,
		Annotations:  map[string]string{"zz.id": string(rune('0' + i))},
	}))
	zzAssert(err == nil, "artifact_builds")
	return m
}

// zzTagsResolveDeep: every tagged entry of the index (the client's fallback
// referrers tag included) names a manifest that is in the layout, and when
// that manifest is an index, so are the manifests it lists.
func zzTagsResolveDeep(pfx string) {
	fs := zzos.Cur
	ib, ok := fs.Data(zzLay + "/index.json")
	if !ok {
		return
	}
	var idx v1.Index
	if json.Unmarshal(ib, &idx) != nil {
		return
	}
	file := func(d digest.Digest) string {
		return path.Join(zzLay, "blobs", d.Algorithm().String(), d.Encoded())
	}
	for _, e := range idx.Manifests {
		if _, tagged := e.Annotations[aOCIRefName]; !tagged {
			continue
		}
		b, ok := fs.Data(file(e.Digest))
		zzAssert(ok, pfx+"_tagged_manifest_present")
		var inner v1.Index
		if ok && e.MediaType == mediatype.OCI1ManifestList && json.Unmarshal(b, &inner) == nil {
			for _, c := range inner.Manifests {
				zzAssert(fs.Exists(file(c.Digest)), pfx+"_tagged_index_lists_only_present_manifests")
			}
		}
	}
}

// Crash during a referrer-bearing push or a referrer-aware delete: the
// subject image is tagged, 0-2 artifacts already refer to it (stored through
// the real API before the trace starts).
func ZZC07_crash_referrers() {
	zzos.Reset()
	r, _ := ref.New("ocidir://" + zzLay)
	zzos.Cur.Put(zzLay+"/oci-layout", []byte(zzMarker))
	zzos.Cur.Put(zzLay+"/index.json", []byte(`{"schemaVersion":2,"mediaType":"application/vnd.oci.image.index.v1+json","manifests":[]}`))
	o := New()
	ctx := context.Background()
	img := zzManifest(0)
	zzAssert(o.ManifestPut(ctx, r.SetTag("a"), img) == nil, "rc_setup")
	subj := img.GetDescriptor()
	nPre := zzInt("pre_artifacts", 0, 2)
	var arts []manifest.Manifest
	for i := 0; i < 3; i++ {
		arts = append(arts, zzArtifactC(i, subj))
	}
	for i := 0; i < nPre; i++ {
		zzAssert(o.ManifestPut(ctx, r.SetDigest(arts[i].GetDescriptor().Digest.String()), arts[i]) == nil, "rc_setup")
	}
	p := &zzPre{r: r, tags: []string{"a"}, digs: []digest.Digest{subj.Digest}}
	zzos.Cur.Mark()
	deleted := -1
	if nPre > 0 && zzBool("delete") {
		v := zzInt("victim", 0, nPre-1)
		for k := 0; k < nPre; k++ {
			if v == k {
				v = k
				break
			}
		}
		err := o.ManifestDelete(ctx, r.SetDigest(arts[v].GetDescriptor().Digest.String()), scheme.WithManifestCheckReferrers())
		zzAssert(err == nil, "rc_delete_succeeds")
		zzReach("rc_referrer_deleted")
		deleted = v
	} else {
		m := arts[nPre]
		err := o.ManifestPut(ctx, r.SetDigest(m.GetDescriptor().Digest.String()), m)
		zzAssert(err == nil, "rc_put_succeeds")
		zzReach("rc_referrer_pushed")
	}
	zzCrash(p, true, "", "rc")
	zzTagsResolveDeep("rc")
	// repeat the interrupted operation with a fresh client
	o2 := New()
	if deleted >= 0 {
		m := arts[deleted]
		rerr := o2.ManifestDelete(ctx, r.SetDigest(m.GetDescriptor().Digest.String()), scheme.WithManifestCheckReferrers())
		gone := !zzos.Cur.Exists(path.Join(zzLay, "blobs", "sha256", m.GetDescriptor().Digest.Encoded()))
		// the repeat either completes the delete or finds it already done
		zzAssert(gone, "rc_repeat_of_the_delete_reaches_the_intended_state")
		_ = rerr
		rl, lerr := o2.ReferrerList(ctx, r.SetDigest(subj.Digest.String()))
		zzAssert(lerr == nil, "rc_repeat_of_the_delete_reaches_the_intended_state")
		for _, d := range rl.Descriptors {
			zzAssert(d.Digest != m.GetDescriptor().Digest, "rc_repeat_of_the_delete_reaches_the_intended_state")
		}
	} else {
		m := arts[nPre]
		zzAssert(o2.ManifestPut(ctx, r.SetDigest(m.GetDescriptor().Digest.String()), m) == nil, "rc_repeat_of_the_push_succeeds")
		rl, lerr := o2.ReferrerList(ctx, r.SetDigest(subj.Digest.String()))
		n := 0
		for _, d := range rl.Descriptors {
			if d.Digest == m.GetDescriptor().Digest {
				n++
			}
		}
		zzAssert(lerr == nil && n == 1, "rc_repeat_of_the_push_reaches_the_intended_state")
	}
	zzTagsResolveDeep("rc_after_repeat")
}
