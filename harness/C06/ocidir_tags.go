//zz:pkg scheme/ocidir
//zz:subst scheme/ocidir os
package ocidir

import (
	"context"
	"encoding/json"

	"github.com/opencontainers/go-digest"

	zzos "github.com/regclient/regclient/internal/zzos"
	"github.com/regclient/regclient/types/descriptor"
	"github.com/regclient/regclient/types/mediatype"
	v1 "github.com/regclient/regclient/types/oci/v1"
	"github.com/regclient/regclient/types/ref"
)

const zzDir = "/lay"

// zzTag returns an arbitrary one-letter tag.
func zzTag(name string) string {
	t := zzString(name, 1)
	zzAssume(t[0] >= 'a' && t[0] <= 'e')
	return t
}

// zzIndex builds an arbitrary index of n entries. foreign=false: the shape
// regclient itself writes (at most one entry per tag, ref.name = bare tag);
// foreign=true: anything another tool may have written (duplicate tags,
// untagged entries, full image names in ref.name).
func zzIndex(n int, foreign bool) v1.Index {
	idx := indexCreate()
	for i := 0; i < n; i++ {
		d := descriptor.Descriptor{
			MediaType: mediatype.OCI1Manifest,
			Digest:    digest.Digest(zzDigest("idx_digest", "sha256")),
			Size:      2,
		}
		if zzBool("idx_tagged") {
			t := zzTag("idx_tag")
			if foreign && zzBool("idx_fullname") {
				t = "reg.example/repo:" + t
			}
			d.Annotations = map[string]string{aOCIRefName: t}
		}
		idx.Manifests = append(idx.Manifests, d)
	}
	if !foreign {
		for i := range idx.Manifests {
			for j := i + 1; j < len(idx.Manifests); j++ {
				ti, oki := idx.Manifests[i].Annotations[aOCIRefName]
				tj, okj := idx.Manifests[j].Annotations[aOCIRefName]
				zzAssume(!(oki && okj && ti == tj))
			}
		}
	}
	return idx
}

func zzInstall(idx v1.Index) ref.Ref {
	zzos.Reset()
	zzos.Cur.Put(zzDir+"/oci-layout", []byte(`{"imageLayoutVersion":"1.0.0"}`))
	b, err := json.Marshal(idx)
	zzAssert(err == nil, "index_marshals")
	zzos.Cur.Put(zzDir+"/index.json", b)
	r, err := ref.New("ocidir://" + zzDir)
	zzAssert(err == nil, "ref_parses")
	return r
}

// zzResolve is the abstraction function: what a tag resolves to.
func zzResolve(o *OCIDir, r ref.Ref, tag string) (digest.Digest, bool) {
	idx, err := o.readIndex(r, false)
	if err != nil {
		return "", false
	}
	d, err := indexGet(idx, r.SetTag(tag))
	if err != nil {
		return "", false
	}
	return d.Digest, true
}

func zzListed(o *OCIDir, r ref.Ref, tag string) bool {
	tl, err := o.TagList(context.Background(), r)
	if err != nil {
		return false
	}
	tags, err := tl.GetTags()
	if err != nil {
		return false
	}
	for _, t := range tags {
		if t == tag {
			return true
		}
	}
	return false
}

func zzTagDelete(foreign bool, pfx string) {
	n := zzInt("idx_n", 0, 3)
	r := zzInstall(zzIndex(n, foreign))
	o := New()
	victim, other := zzTag("victim"), zzTag("other")
	zzAssume(victim != other)
	dOther, okOther := zzResolve(o, r, other)
	_, okVictim := zzResolve(o, r, victim)
	fullName := false
	if idx0, e0 := o.readIndex(r, false); e0 == nil {
		for _, e := range idx0.Manifests {
			if e.Annotations[aOCIRefName] == "reg.example/repo:"+victim {
				fullName = true
			}
		}
	}
	err := o.TagDelete(context.Background(), r.SetTag(victim))
	zzReach(pfx + "_returned")
	if err != nil {
		zzReach(pfx + "_error")
		if !foreign {
			zzAssert(!okVictim, pfx+"_delete_of_existing_tag_succeeds")
		}
		// a refused delete changes nothing
		_, still := zzResolve(o, r, victim)
		zzAssert(still == okVictim, pfx+"_failed_delete_keeps_victim")
		dAfter, okAfter := zzResolve(o, r, other)
		zzAssert(okAfter == okOther && (!okOther || dAfter == dOther), pfx+"_failed_delete_keeps_others")
		return
	}
	zzReach(pfx + "_deleted")
	_, still := zzResolve(o, r, victim)
	if fullName {
		// entries whose ref.name is a full image name ending in :tag
		zzAssert(!still, pfx+"_deleted_tag_no_longer_resolves_fullname")
		zzAssert(!zzListed(o, r, victim), pfx+"_deleted_tag_not_listed_fullname")
	} else {
		zzAssert(!still, pfx+"_deleted_tag_no_longer_resolves")
		zzAssert(!zzListed(o, r, victim), pfx+"_deleted_tag_not_listed")
	}
	dAfter, okAfter := zzResolve(o, r, other)
	zzAssert(okAfter == okOther, pfx+"_other_tag_presence_unchanged")
	zzAssert(!okOther || dAfter == dOther, pfx+"_other_tag_digest_unchanged")
	zzAssert(zzListed(o, r, other) == okOther, pfx+"_listing_matches_resolution")
}

// Tag delete on a layout written by regclient: exactly that tag disappears.
func ZZC06_ocidir_tag_delete() { zzTagDelete(false, "td") }

// Tag delete on a layout written by another tool (duplicates, untagged
// entries, full image names): after a successful delete the tag no longer
// resolves and is no longer listed; other tags are untouched.
func ZZC06_ocidir_tag_delete_foreign() { zzTagDelete(true, "tdf") }

// Index update (the kernel of push-by-tag / push-by-digest): sets exactly
// that key; the index keeps at most one entry per tag.
func ZZC06_ocidir_index_set() {
	n := zzInt("idx_n", 0, 3)
	foreign := zzBool("foreign")
	r := zzInstall(zzIndex(n, foreign))
	o := New()
	tag, other := zzTag("tag"), zzTag("other")
	zzAssume(tag != other)
	dNew := descriptor.Descriptor{MediaType: mediatype.OCI1Manifest, Digest: digest.Digest(zzDigest("new_digest", "sha256")), Size: 2}
	dOther, okOther := zzResolve(o, r, other)
	byTag := zzBool("by_tag")
	rr := r.SetDigest(dNew.Digest.String())
	if byTag {
		rr = r.SetTag(tag)
	}
	err := o.updateIndex(rr, dNew, false, false)
	zzAssert(err == nil, "is_update_succeeds")
	zzReach("is_updated")
	if byTag {
		zzReach("is_by_tag")
		d, ok := zzResolve(o, r, tag)
		zzAssert(ok && d == dNew.Digest, "is_tag_resolves_to_pushed_manifest")
		idx, _ := o.readIndex(r, false)
		cnt := 0
		for _, e := range idx.Manifests {
			if e.Annotations[aOCIRefName] == tag {
				cnt++
			}
		}
		zzAssert(cnt == 1, "is_one_entry_per_tag")
	}
	dAfter, okAfter := zzResolve(o, r, other)
	zzAssert(okAfter == okOther && (!okOther || dAfter == dOther), "is_other_tags_untouched")
	idx, err := o.readIndex(r, false)
	zzAssert(err == nil && idx.SchemaVersion == 2 && idx.MediaType == mediatype.OCI1ManifestList, "is_index_stays_valid")
}
