//zz:pkg scheme/reg
//zz:hook internal/reghttp Client.Do
//zz:use zzreg
package reg

import (
	"context"
	"io"
	"log/slog"
	"sync"
	"time"

	"github.com/opencontainers/go-digest"

	"github.com/regclient/regclient/internal/reghttp"
	"github.com/regclient/regclient/internal/zzreg"
	"github.com/regclient/regclient/types/descriptor"
	"github.com/regclient/regclient/types/manifest"
	"github.com/regclient/regclient/types/mediatype"
	v1 "github.com/regclient/regclient/types/oci/v1"
	"github.com/regclient/regclient/types/ref"
)

type zzC06Task struct{}

// Two concurrent tag operations on one registry repository through one
// client, interleaved at request granularity in every possible way (zzTurn):
// each task pushes one of two manifests to a tag, deletes a tag (on a registry
// with or without tag deletion: the client's placeholder fall-back), or
// deletes a manifest by digest. When both have finished, the repository is in
// the state one of the two sequential orders produces: every tag resolves to
// what that order leaves, an untouched tag is untouched, and no placeholder
// is left behind under any tag.
func ZZC06_reg_concurrent() {
	srv := zzreg.New("reg.example")
	srv.TagDelete = zzBool("registry_deletes_tags")
	zzClockHorizon(int64(time.Minute))
	// (the response cache is on: it is the configuration regctl and regsync run with)
	ropts := []Opts{WithSlog(slog.New(slog.NewTextHandler(io.Discard, nil))), WithCache(time.Hour, 100)}
	rg := New(ropts...)
	rg.reghttp = reghttp.ZZNewClient()
	reghttp.ZZHook_Client_Do = srv.Do
	ctx := context.Background()
	r, _ := ref.New("reg.example/repo")
	empty := []byte("{}")
	srv.PutBlob("repo", empty)
	var mans []manifest.Manifest
	var digs []digest.Digest
	for i := 0; i < 2; i++ {
		l := []byte{'l', byte('0' + i)}
		srv.PutBlob("repo", l)
		m, err := manifest.New(manifest.WithOrig(v1.Manifest{
			Versioned: v1.ManifestSchemaVersion, MediaType: mediatype.OCI1Manifest,
			Config: descriptor.Descriptor{MediaType: mediatype.OCI1Empty, Digest: digest.FromBytes(empty), Size: 2},
			Layers: []descriptor.Descriptor{{MediaType: mediatype.OCI1Layer, Digest: digest.FromBytes(l), Size: 2}},
		}))
		zzAssert(err == nil, "manifest_builds")
		mans = append(mans, m)
		digs = append(digs, m.GetDescriptor().Digest)
		b, _ := m.RawBody()
		srv.PutManifest("repo", "", mediatype.OCI1Manifest, b)
	}
	tags := []string{"a", "b"}
	pre := map[string]digest.Digest{}
	// pre-state: tag a absent or on the first manifest, tag b on the second
	if zzBool("tag_a_exists") {
		pre["a"] = digs[0]
	}
	pre["b"] = digs[1]
	for t, d := range pre {
		srv.Repo("repo").Tags[t] = d.String()
	}
	// the two operations
	type op struct {
		kind int // 0 push, 1 tag delete, 2 manifest delete
		tag  string
		man  int
	}
	var ops [2]op
	// the first task works on tag a / the first manifest, the second on anything
	for i := range ops {
		ops[i].kind = zzInt("op", 0, 2)
		ops[i].tag = tags[0]
		if i == 1 && zzBool("other_tag") {
			ops[i].tag = tags[1]
		}
		if i == 1 && zzBool("second_manifest") {
			ops[i].man = 1
		}
	}
	// (two placeholder fall-backs side by side interleave some 16 requests: out of reach of the path budget)
	zzAssume(srv.TagDelete || ops[0].kind != 1 || ops[1].kind != 1)
	// sequential semantics on the abstract state (tags + stored manifests)
	type state struct {
		tags   map[string]digest.Digest
		stored map[digest.Digest]bool
	}
	apply := func(s state, o op) state {
		n := state{tags: map[string]digest.Digest{}, stored: map[digest.Digest]bool{}}
		for k, v := range s.tags {
			n.tags[k] = v
		}
		for k, v := range s.stored {
			n.stored[k] = v
		}
		switch o.kind {
		case 0:
			n.tags[o.tag] = digs[o.man]
			n.stored[digs[o.man]] = true
		case 1:
			delete(n.tags, o.tag)
		case 2:
			if n.stored[digs[o.man]] {
				delete(n.stored, digs[o.man])
				for k, v := range n.tags {
					if v == digs[o.man] {
						delete(n.tags, k)
					}
				}
			}
		}
		return n
	}
	s0 := state{tags: pre, stored: map[digest.Digest]bool{digs[0]: true, digs[1]: true}}
	ab := apply(apply(s0, ops[0]), ops[1])
	ba := apply(apply(s0, ops[1]), ops[0])
	// run both through the real client, every request a scheduling point
	srv.Before = func(ctx context.Context, req *reghttp.Req, ev *zzreg.Event) int {
		id, _ := ctx.Value(zzC06Task{}).(int)
		zzTurn(id)
		return 0
	}
	var wg sync.WaitGroup
	errs := make([]error, 2)
	for t := 0; t < 2; t++ {
		wg.Add(1)
		go func(t int) {
			defer wg.Done()
			defer zzTurnDone(t)
			tctx := context.WithValue(ctx, zzC06Task{}, t)
			o := ops[t]
			switch o.kind {
			case 0:
				errs[t] = rg.ManifestPut(tctx, r.SetTag(o.tag), mans[o.man])
			case 1:
				errs[t] = rg.TagDelete(tctx, r.SetTag(o.tag))
			case 2:
				errs[t] = rg.ManifestDelete(tctx, r.SetDigest(digs[o.man].String()))
			}
		}(t)
	}
	wg.Wait()
	srv.Before = nil
	zzReach("tasks_finished")
	for t := 0; t < 2; t++ {
		if ops[t].kind == 0 {
			zzAssert(errs[t] == nil, "rc_push_succeeds")
		}
	}
	// observed final state, from the registry itself
	repo := srv.Repo("repo")
	matches := func(s state) bool {
		for _, t := range tags {
			got, ok := repo.Tags[t]
			want, wok := s.tags[t]
			if ok != wok || (ok && got != want.String()) {
				return false
			}
		}
		return true
	}
	for k := range repo.Tags {
		zzAssert(k == "a" || k == "b", "rc_no_foreign_tag_left")
	}
	for _, d := range repo.Tags {
		_, ok := repo.Manifests[d]
		zzAssert(ok, "rc_every_tag_names_a_stored_manifest")
		zzAssert(d == digs[0].String() || d == digs[1].String(), "rc_no_placeholder_left_under_a_tag")
	}
	failed := errs[0] != nil || errs[1] != nil
	if !failed {
		zzReach("both_succeeded")
		zzAssert(matches(ab) || matches(ba), "rc_outcome_is_one_of_the_sequential_ones")
	}
	// a tag neither operation names keeps its value
	for _, t := range tags {
		touched := false
		for _, o := range ops {
			if (o.kind != 2 && o.tag == t) || (o.kind == 2 && pre[t] == digs[o.man]) {
				touched = true
			}
		}
		if !touched {
			got, ok := repo.Tags[t]
			want, wok := pre[t]
			zzAssert(ok == wok && (!ok || got == want.String()), "rc_untouched_tag_keeps_its_value")
		}
	}
	// what the client reports afterwards is what the registry holds
	for _, t := range tags {
		mh, herr := rg.ManifestHead(ctx, r.SetTag(t))
		if d, ok := repo.Tags[t]; ok {
			zzAssert(herr == nil && mh.GetDescriptor().Digest.String() == d, "rc_client_view_is_the_registry_state")
		} else {
			zzAssert(herr != nil, "rc_client_view_is_the_registry_state")
		}
	}
}
