//zz:pkg scheme/ocidir
//zz:subst scheme/ocidir os
package ocidir

import (
	"context"

	"github.com/opencontainers/go-digest"

	zzos "github.com/regclient/regclient/internal/zzos"
	"github.com/regclient/regclient/types/descriptor"
	"github.com/regclient/regclient/types/manifest"
	"github.com/regclient/regclient/types/mediatype"
	v1 "github.com/regclient/regclient/types/oci/v1"
)

func zzMan06(id int) manifest.Manifest {
	cfg := []byte(`{"id":` + string(rune('0'+id)) + `}`)
	m, err := manifest.New(manifest.WithOrig(v1.Manifest{
		Versioned: v1.ManifestSchemaVersion, MediaType: mediatype.OCI1Manifest,
		Config: descriptor.Descriptor{MediaType: mediatype.OCI1ImageConfig, Digest: digest.FromBytes(cfg), Size: int64(len(cfg))},
		Layers: []descriptor.Descriptor{},
	}))
	zzAssert(err == nil, "manifest_builds")
	return m
}

// Tag operations issued concurrently from two goroutines on one client: each
// task pushes a manifest to its own tag, deletes its own tag, or deletes the
// manifest its tag points to; the tags may share a manifest. Before every
// state-changing file-system call the other task may be scheduled first
// (context-bounded). Afterwards the layout reports what the map model reports
// when the two operations are applied one after the other in either order.
func ZZC06_ocidir_concurrent() {
	r := zzInstall(v1.Index{Versioned: v1.IndexSchemaVersion, MediaType: mediatype.OCI1ManifestList, Manifests: []descriptor.Descriptor{}})
	o := New()
	ctx := context.Background()
	mans := []manifest.Manifest{zzMan06(0), zzMan06(1)}
	tags := []string{"a", "b"}
	model := map[string]digest.Digest{}
	for i, t := range tags {
		switch zzInt("pre_tag", 0, 2) {
		case 1:
			zzAssert(o.ManifestPut(ctx, r.SetTag(t), mans[0]) == nil, "setup")
			model[t] = mans[0].GetDescriptor().Digest
		case 2:
			zzAssert(o.ManifestPut(ctx, r.SetTag(t), mans[i]) == nil, "setup")
			model[t] = mans[i].GetDescriptor().Digest
		}
	}
	op := []int{zzInt("op", 0, 2), zzInt("op", 0, 2)}
	zzTurnBudget(2 + zzTier())
	zzos.Cur.MayFail = func(opn, name string) bool {
		if opn != "read" && opn != "open" {
			h := 7
			for _, s := range []string{opn, name} {
				for i := 0; i < len(s); i++ {
					h = (h*31 + int(s[i])) % 1000003
				}
			}
			zzTurnSig(h)
		}
		return false
	}
	errs := make([]error, 2)
	done := make(chan int, 2)
	for t := 0; t < 2; t++ {
		go func(t int) {
			switch op[t] {
			case 0:
				errs[t] = o.ManifestPut(ctx, r.SetTag(tags[t]), mans[1-t])
			case 1:
				errs[t] = o.TagDelete(ctx, r.SetTag(tags[t]))
			case 2:
				if d, ok := model[tags[t]]; ok {
					errs[t] = o.ManifestDelete(ctx, r.SetDigest(d.String()))
				}
			}
			done <- t
		}(t)
	}
	<-done
	<-done
	zzos.Cur.MayFail = nil
	zzReach("tag_tasks_finished")
	// the two sequential outcomes of the map model
	apply := func(m map[string]digest.Digest, pre map[string]digest.Digest, t int) {
		switch op[t] {
		case 0:
			m[tags[t]] = mans[1-t].GetDescriptor().Digest
		case 1:
			delete(m, tags[t])
		case 2:
			if d, ok := pre[tags[t]]; ok {
				for k, v := range m {
					if v == d {
						delete(m, k)
					}
				}
			}
		}
	}
	agree := func(first, second int) bool {
		m := map[string]digest.Digest{}
		for k, v := range model {
			m[k] = v
		}
		apply(m, model, first)
		apply(m, model, second)
		for _, t := range tags {
			got, ok := zzResolve(o, r, t)
			want, wok := m[t]
			if ok != wok || (ok && got != want) || zzListed(o, r, t) != wok {
				return false
			}
		}
		return true
	}
	zzAssert(agree(0, 1) || agree(1, 0), "concurrent_tag_operations_are_serialisable")
}
