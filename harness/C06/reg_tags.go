//zz:pkg scheme/reg
//zz:hook internal/reghttp Client.Do
//zz:use zzreg
package reg

import (
	"context"
	"io"
	"log/slog"
	"sort"
	"time"

	"github.com/opencontainers/go-digest"

	"github.com/regclient/regclient/internal/reghttp"
	"github.com/regclient/regclient/internal/zzreg"
	"github.com/regclient/regclient/scheme"
	"github.com/regclient/regclient/types/descriptor"
	"github.com/regclient/regclient/types/manifest"
	"github.com/regclient/regclient/types/mediatype"
	v1 "github.com/regclient/regclient/types/oci/v1"
	"github.com/regclient/regclient/types/ref"
)

// One step of push-by-tag, push-by-digest, tag delete or
// manifest delete from an arbitrary repository state (three tags, each absent or
// on one of two manifests that may share tags; untagged stored manifests) on
// a registry (zzreg behind the Client.Do seam) that does or does not implement
// tag deletion and pages its tag listing with a symbolic page size: after
// every step tag listing, head and get report what a map tag -> digest plus a
// set of stored manifests reports.
func ZZC06_reg_history() {
	srv := zzreg.New("reg.example")
	srv.TagDelete = zzBool("registry_deletes_tags")
	srv.TagPage = zzInt("tag_page", 0, 2)
	for k := 0; k <= 2; k++ { // case split: concrete page size from here on
		if srv.TagPage == k {
			srv.TagPage = k
			break
		}
	}
	zzClockHorizon(int64(time.Minute))
	ropts := []Opts{WithSlog(slog.New(slog.NewTextHandler(io.Discard, nil)))}
	if zzBool("response_cache") {
		ropts = append(ropts, WithCache(time.Hour, 100))
	}
	rg := New(ropts...)
	rg.reghttp = reghttp.ZZNewClient()
	reghttp.ZZHook_Client_Do = srv.Do
	ctx := context.Background()
	r, _ := ref.New("reg.example/repo")
	empty := []byte("{}")
	srv.PutBlob("repo", empty)
	var mans []manifest.Manifest
	for i := 0; i < 2; i++ {
		l := []byte{'l', byte('0' + i)}
		srv.PutBlob("repo", l)
		m, err := manifest.New(manifest.WithOrig(v1.Manifest{
			Versioned: v1.ManifestSchemaVersion, MediaType: mediatype.OCI1Manifest,
			Config: descriptor.Descriptor{MediaType: mediatype.OCI1Empty, Digest: digest.FromBytes(empty), Size: 2},
			Layers: []descriptor.Descriptor{{MediaType: mediatype.OCI1Layer, Digest: digest.FromBytes(l), Size: 2}},
		}))
		zzAssert(err == nil, "manifest_builds")
		mans = append(mans, m)
	}
	tagNames := []string{"a", "b", "c"}
	model := map[string]digest.Digest{}
	stored := map[digest.Digest]bool{}
	// arbitrary pre-state: every tag absent or on either manifest, manifests stored at least when tagged
	for _, t := range tagNames {
		switch zzInt("pre_tag", 0, 2) {
		case 1:
			model[t] = mans[0].GetDescriptor().Digest
		case 2:
			model[t] = mans[1].GetDescriptor().Digest
		}
	}
	for i := range mans {
		d := mans[i].GetDescriptor().Digest
		tagged := false
		for _, v := range model {
			if v == d {
				tagged = true
			}
		}
		if tagged || zzBool("pre_stored_untagged") {
			stored[d] = true
			b, _ := mans[i].RawBody()
			srv.PutManifest("repo", "", mediatype.OCI1Manifest, b)
		}
	}
	for t, d := range model {
		srv.Repo("repo").Tags[t] = d.String()
	}
	// the client has seen the repository before (fills the response cache when there is one)
	for i := range mans {
		_, _ = rg.ManifestGet(ctx, r.SetDigest(mans[i].GetDescriptor().Digest.String()))
	}
	for _, k := range tagNames {
		_, _ = rg.ManifestHead(ctx, r.SetTag(k))
	}
	// one step from an arbitrary state: histories of any length follow by induction over the state
	steps := 1
	for s := 0; s < steps; s++ {
		ti := zzInt("tag", 0, 2)
		for k := 0; k < 3; k++ {
			if ti == k {
				ti = k
				break
			}
		}
		t := tagNames[ti]
		mi := 0
		if zzBool("second_manifest") {
			mi = 1
		}
		md := mans[mi].GetDescriptor().Digest
		switch zzInt("op", 0, 3) {
		case 0: // push by tag
			zzAssert(rg.ManifestPut(ctx, r.SetTag(t), mans[mi]) == nil, "rh_put_succeeds")
			model[t] = md
			stored[md] = true
		case 1: // push by digest
			zzAssert(rg.ManifestPut(ctx, r.SetDigest(md.String()), mans[mi]) == nil, "rh_put_succeeds")
			stored[md] = true
		case 2: // tag delete
			err := rg.TagDelete(ctx, r.SetTag(t))
			if _, ok := model[t]; ok {
				zzReach("rh_live_tag_deleted")
				zzAssert(err == nil, "rh_delete_of_live_tag_succeeds")
			}
			if err == nil {
				delete(model, t)
			}
		case 3: // manifest delete, with or without referrer check
			var opts []scheme.ManifestOpts
			if zzBool("check_referrers") {
				opts = append(opts, scheme.WithManifestCheckReferrers())
			}
			rd := r.SetDigest(md.String())
			if zzBool("delete_ref_also_has_a_tag") {
				rd = r.SetTag(t).AddDigest(md.String()) // repo:tag@digest, as regctl --force-tag-dereference and the tag-delete fall-back build it
			}
			err := rg.ManifestDelete(ctx, rd, opts...)
			if stored[md] {
				zzAssert(err == nil, "rh_delete_of_stored_manifest_succeeds")
			}
			if err == nil {
				delete(stored, md)
				for k, v := range model {
					if v == md {
						delete(model, k)
					}
				}
			}
		}
		// observe: listing, head and get against the model
		tl, err := rg.TagList(ctx, r)
		zzAssert(err == nil, "rh_list_succeeds")
		zzReach("rh_listed")
		got, _ := tl.GetTags()
		sort.Strings(got)
		var want []string
		for _, k := range tagNames {
			if _, ok := model[k]; ok {
				want = append(want, k)
			}
		}
		zzAssert(len(got) == len(want), "rh_listing_is_the_tag_set")
		for i := range want {
			if i < len(got) {
				zzAssert(got[i] == want[i], "rh_listing_is_the_tag_set")
			}
		}
		for _, k := range tagNames {
			mh, herr := rg.ManifestHead(ctx, r.SetTag(k))
			if d, ok := model[k]; ok {
				zzAssert(herr == nil && mh.GetDescriptor().Digest == d, "rh_tag_resolves_to_its_manifest")
				mg, gerr := rg.ManifestGet(ctx, r.SetTag(k))
				zzAssert(gerr == nil && mg.GetDescriptor().Digest == d, "rh_tag_resolves_to_its_manifest")
			} else {
				zzAssert(herr != nil, "rh_deleted_tag_is_gone")
			}
		}
		for i := range mans {
			d := mans[i].GetDescriptor().Digest
			_, gerr := rg.ManifestGet(ctx, r.SetDigest(d.String()))
			if stored[d] {
				zzAssert(gerr == nil, "rh_stored_manifest_still_there")
			} else {
				zzAssert(gerr != nil, "rh_deleted_manifest_is_gone")
			}
		}
		// nothing but the pool (and no placeholder) is left behind under a tag
		for k := range srv.Repo("repo").Tags {
			_, ok := model[k]
			zzAssert(ok, "rh_no_foreign_tag_left")
		}
	}
}
