package zzmodel

import (
	"errors"
	"net/http"
)

// ClientDo models (*http.Client).Do at the RoundTripper level: one call of
// the client's transport per hop, redirects followed through CheckRedirect
// with the Authorization header dropped when the host changes (as net/http
// does); no cookies, no timeouts.
func ClientDo(c *http.Client, req *http.Request) (*http.Response, error) {
	rt := c.Transport
	if rt == nil {
		return nil, errors.New("zzmodel: http.Client without Transport (the default transport is not modelled)")
	}
	if req.Header == nil {
		req.Header = http.Header{}
	}
	var via []*http.Request
	for hop := 0; hop < 10; hop++ {
		resp, err := rt.RoundTrip(req)
		if err != nil {
			return nil, err
		}
		loc := resp.Header.Get("Location")
		switch resp.StatusCode {
		case 301, 302, 303, 307, 308:
		default:
			return resp, nil
		}
		if loc == "" {
			return resp, nil
		}
		u, err := req.URL.Parse(loc)
		if err != nil {
			return resp, nil
		}
		next := &http.Request{Method: req.Method, URL: u, Host: u.Host, Header: http.Header{}}
		if resp.StatusCode == 303 || ((resp.StatusCode == 301 || resp.StatusCode == 302) && req.Method == "POST") {
			next.Method = "GET"
		}
		for k, v := range req.Header {
			if (k == "Authorization" || k == "Www-Authenticate" || k == "Cookie" || k == "Cookie2") && u.Host != req.URL.Host {
				continue
			}
			next.Header[k] = append([]string(nil), v...)
		}
		next = next.WithContext(req.Context())
		via = append(via, req)
		if c.CheckRedirect != nil {
			if err := c.CheckRedirect(next, via); err != nil {
				if err == http.ErrUseLastResponse {
					return resp, nil
				}
				return resp, err
			}
		}
		req = next
	}
	return nil, errors.New("stopped after 10 redirects")
}
