// Package zzmodel holds environment models written in Go source. It exists
// only in the overlay used by the symbolic engine; native replays run the real
// libraries instead.
package zzmodel

import (
	"hash"
)

// Hash models hash.Hash: it only accumulates what is written. The engine
// finalises it (real hash for concrete data, collision-free uninterpreted
// function otherwise).
type Hash struct {
	Alg string
	Buf []byte
	N   int
}

var _ hash.Hash = (*Hash)(nil)

func (h *Hash) Write(p []byte) (int, error) {
	h.Buf = append(h.Buf, p...)
	h.N += len(p)
	return len(p), nil
}
func (h *Hash) Sum(b []byte) []byte { return append(b, zzHashSum(h.Alg, h.Buf)...) }
func (h *Hash) Reset()              { h.Buf = nil; h.N = 0 }
func (h *Hash) Size() int           { return zzHashSize(h.Alg) }
func (h *Hash) BlockSize() int      { return 64 }

func NewHash(alg string) *Hash { return &Hash{Alg: alg} }

func zzHashSum(alg string, b []byte) []byte { return nil }
func zzHashSize(alg string) int            { return 32 }
