package zzmodel

import (
	"context"
	"time"
)

// Ctx models context.Context: a tree of nodes; cancellable nodes own a done
// channel. Deadlines never fire by themselves (a harness cancels explicitly).
type Ctx struct {
	parent     *Ctx
	foreign    context.Context // non-model parent, consulted for Value only
	done       chan struct{}
	err        error
	cause      error
	key, val   any
	children   []*Ctx
	cancelable bool
	deadline   time.Time
	hasDL      bool
}

var background = &Ctx{}

func Background() context.Context { return background }

func asCtx(parent context.Context) *Ctx {
	if c, ok := parent.(*Ctx); ok {
		return c
	}
	return &Ctx{foreign: parent}
}

func (c *Ctx) owner() *Ctx {
	for x := c; x != nil; x = x.parent {
		if x.cancelable {
			return x
		}
	}
	return nil
}

func (c *Ctx) Deadline() (time.Time, bool) {
	for x := c; x != nil; x = x.parent {
		if x.hasDL {
			return x.deadline, true
		}
	}
	return time.Time{}, false
}

func (c *Ctx) Done() <-chan struct{} {
	if o := c.owner(); o != nil {
		return o.done
	}
	return nil
}

func (c *Ctx) Err() error {
	if o := c.owner(); o != nil {
		return o.err
	}
	return nil
}

func (c *Ctx) Value(key any) any {
	for x := c; x != nil; x = x.parent {
		if x.key != nil && x.key == key {
			return x.val
		}
		if x.foreign != nil {
			return x.foreign.Value(key)
		}
	}
	return nil
}

func (c *Ctx) cancel(err, cause error) {
	if c.err != nil {
		return
	}
	c.err = err
	if cause == nil {
		cause = err
	}
	c.cause = cause
	close(c.done)
	for _, ch := range c.children {
		ch.cancel(err, cause)
	}
	c.children = nil
}

func newCancel(parent context.Context) *Ctx {
	p := asCtx(parent)
	c := &Ctx{parent: p, done: make(chan struct{}), cancelable: true}
	if o := p.owner(); o != nil {
		if o.err != nil {
			c.cancel(o.err, o.cause)
		} else {
			o.children = append(o.children, c)
		}
	}
	return c
}

func WithCancel(parent context.Context) (context.Context, context.CancelFunc) {
	c := newCancel(parent)
	return c, func() { c.cancel(context.Canceled, nil) }
}

func WithCancelCause(parent context.Context) (context.Context, context.CancelCauseFunc) {
	c := newCancel(parent)
	return c, func(cause error) { c.cancel(context.Canceled, cause) }
}

func WithDeadline(parent context.Context, d time.Time) (context.Context, context.CancelFunc) {
	c := newCancel(parent)
	c.deadline, c.hasDL = d, true
	return c, func() { c.cancel(context.Canceled, nil) }
}

func WithTimeout(parent context.Context, d time.Duration) (context.Context, context.CancelFunc) {
	c := newCancel(parent)
	c.hasDL = true
	return c, func() { c.cancel(context.Canceled, nil) }
}

func WithValue(parent context.Context, key, val any) context.Context {
	return &Ctx{parent: asCtx(parent), key: key, val: val}
}

func WithoutCancel(parent context.Context) context.Context {
	return &Ctx{foreign: parent}
}

func Cause(c context.Context) error {
	if x, ok := c.(*Ctx); ok {
		if o := x.owner(); o != nil {
			return o.cause
		}
	}
	return nil
}
