// Package zztar models archive/tar at the API level: a reader hands out a
// list of entries prepared by the harness (header + payload), a writer
// records the entries written. It replaces archive/tar through an import
// substitution (//zz:subst <pkgdir> archive/tar) in the symbolic run and in the
// native replay alike. Real tar byte formats are not modelled.
package zztar

import (
	"errors"
	"io"
	"io/fs"
	"time"
)

const (
	TypeReg     = '0'
	TypeRegA    = '\x00'
	TypeLink    = '1'
	TypeSymlink = '2'
	TypeChar    = '3'
	TypeBlock   = '4'
	TypeDir     = '5'
	TypeFifo    = '6'
)

type Format int

const (
	FormatUnknown Format = 0
	FormatUSTAR   Format = 2
	FormatPAX     Format = 4
	FormatGNU     Format = 8
)

var ErrHeader = errors.New("archive/tar: invalid tar header")

type Header struct {
	Typeflag   byte
	Name       string
	Linkname   string
	Size       int64
	Mode       int64
	Uid, Gid   int
	Uname      string
	Gname      string
	ModTime    time.Time
	AccessTime time.Time
	ChangeTime time.Time
	Devmajor   int64
	Devminor   int64
	Xattrs     map[string]string
	PAXRecords map[string]string
	Format     Format
}

func (h *Header) FileInfo() fs.FileInfo { return nil }

// Entry is one archive member.
type Entry struct {
	Hdr  Header
	Data []byte
}

// Input is what the next NewReader will deliver; Output collects what
// writers produced.
var (
	Input  []Entry
	Output []Entry
)

type Reader struct {
	entries []Entry
	cur     int
	off     int
}

func NewReader(r io.Reader) *Reader { return &Reader{entries: Input, cur: -1} }

func (tr *Reader) Next() (*Header, error) {
	tr.cur++
	tr.off = 0
	if tr.cur >= len(tr.entries) {
		return nil, io.EOF
	}
	h := tr.entries[tr.cur].Hdr
	return &h, nil
}

func (tr *Reader) Read(b []byte) (int, error) {
	if tr.cur < 0 || tr.cur >= len(tr.entries) {
		return 0, io.EOF
	}
	d := tr.entries[tr.cur].Data
	if tr.off >= len(d) {
		return 0, io.EOF
	}
	n := copy(b, d[tr.off:])
	tr.off += n
	return n, nil
}

type Writer struct {
	open bool
}

func NewWriter(w io.Writer) *Writer { return &Writer{} }

func (tw *Writer) WriteHeader(h *Header) error {
	Output = append(Output, Entry{Hdr: *h})
	tw.open = true
	return nil
}

func (tw *Writer) Write(b []byte) (int, error) {
	if len(Output) == 0 {
		return 0, errors.New("archive/tar: write before header")
	}
	e := &Output[len(Output)-1]
	e.Data = append(e.Data, b...)
	return len(b), nil
}

func (tw *Writer) Flush() error { return nil }
func (tw *Writer) Close() error { return nil }

func FileInfoHeader(fi fs.FileInfo, link string) (*Header, error) {
	h := &Header{Name: fi.Name(), Size: fi.Size(), Mode: int64(fi.Mode().Perm()), ModTime: fi.ModTime()}
	switch {
	case fi.IsDir():
		h.Typeflag = TypeDir
		h.Name += "/"
	default:
		h.Typeflag = TypeReg
	}
	return h, nil
}
