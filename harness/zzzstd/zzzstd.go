// Package zzzstd models github.com/klauspost/compress/zstd as a marker format:
// the real zstd magic (28 b5 2f fd) followed by the uncompressed bytes.
// Replaces the package through an import substitution.
package zzzstd

import (
	"errors"
	"io"
)

var Magic = []byte{0x28, 0xb5, 0x2f, 0xfd}

type EOption func()
type DOption func()

type Encoder struct {
	w     io.Writer
	wrote bool
}

func NewWriter(w io.Writer, opts ...EOption) (*Encoder, error) { return &Encoder{w: w}, nil }

func (e *Encoder) head() error {
	if e.wrote {
		return nil
	}
	e.wrote = true
	_, err := e.w.Write(Magic)
	return err
}

func (e *Encoder) Write(p []byte) (int, error) {
	if err := e.head(); err != nil {
		return 0, err
	}
	return e.w.Write(p)
}

func (e *Encoder) Flush() error { return e.head() }
func (e *Encoder) Close() error { return e.head() }

type Decoder struct {
	r io.Reader
}

func NewReader(r io.Reader, opts ...DOption) (*Decoder, error) {
	var m [4]byte
	if _, err := io.ReadFull(r, m[:]); err != nil {
		return nil, err
	}
	for i := range m {
		if m[i] != Magic[i] {
			return nil, errors.New("zstd: invalid magic")
		}
	}
	return &Decoder{r: r}, nil
}

func (d *Decoder) Read(p []byte) (int, error) { return d.r.Read(p) }
func (d *Decoder) Close()                     {}
func (d *Decoder) IOReadCloser() io.ReadCloser {
	return io.NopCloser(d.r)
}
