//zz:pkg types/manifest
package manifest

import (
	"bytes"
	"encoding/json"
	"net/http"

	"github.com/opencontainers/go-digest"

	"github.com/regclient/regclient/types/descriptor"
	"github.com/regclient/regclient/types/docker/schema2"
	"github.com/regclient/regclient/types/mediatype"
	v1 "github.com/regclient/regclient/types/oci/v1"
	"github.com/regclient/regclient/types/ref"
)

func zzDesc(mt string) descriptor.Descriptor {
	return descriptor.Descriptor{MediaType: mt, Digest: digest.Digest(zzDigest("blob_digest", "sha256")), Size: int64(zzInt("blob_size", 1, 9))}
}

func zzAnn() map[string]string {
	if !zzBool("has_annotations") {
		return nil
	}
	v := zzString("ann_val", 1)
	return map[string]string{"org.example.note": v}
}

// zzStruct returns an arbitrary manifest struct of the kind, its media type.
func zzStruct(kind int) (any, string) {
	switch kind {
	case 0:
		m := v1.Manifest{Versioned: v1.ManifestSchemaVersion, MediaType: mediatype.OCI1Manifest, Config: zzDesc(mediatype.OCI1ImageConfig), Annotations: zzAnn()}
		n := zzInt("n_layers", 0, 2)
		for i := 0; i < n; i++ {
			m.Layers = append(m.Layers, zzDesc(mediatype.OCI1LayerGzip))
		}
		if zzBool("has_subject") {
			s := zzDesc(mediatype.OCI1Manifest)
			m.Subject = &s
		}
		return m, mediatype.OCI1Manifest
	case 1:
		m := v1.Index{Versioned: v1.IndexSchemaVersion, MediaType: mediatype.OCI1ManifestList, Annotations: zzAnn()}
		n := zzInt("n_manifests", 0, 2)
		for i := 0; i < n; i++ {
			m.Manifests = append(m.Manifests, zzDesc(mediatype.OCI1Manifest))
		}
		return m, mediatype.OCI1ManifestList
	case 2:
		m := schema2.Manifest{Versioned: schema2.ManifestSchemaVersion, Config: zzDesc(mediatype.Docker2ImageConfig), Annotations: zzAnn()}
		n := zzInt("n_layers", 0, 2)
		for i := 0; i < n; i++ {
			m.Layers = append(m.Layers, zzDesc(mediatype.Docker2LayerGzip))
		}
		return m, mediatype.Docker2Manifest
	case 3:
		m := schema2.ManifestList{Versioned: schema2.ManifestListSchemaVersion, Annotations: zzAnn()}
		n := zzInt("n_manifests", 0, 2)
		for i := 0; i < n; i++ {
			m.Manifests = append(m.Manifests, zzDesc(mediatype.Docker2Manifest))
		}
		return m, mediatype.Docker2ManifestList
	}
	m := v1.ArtifactManifest{MediaType: mediatype.OCI1Artifact, ArtifactType: "application/example", Annotations: zzAnn()}
	n := zzInt("n_blobs", 0, 2)
	for i := 0; i < n; i++ {
		m.Blobs = append(m.Blobs, zzDesc("application/octet-stream"))
	}
	return m, mediatype.OCI1Artifact
}

// zzEquation: the descriptor is the hash and length of the raw body, which is
// what MarshalJSON returns (what gets pushed), and it parses back to GetOrig.
func zzEquation(m Manifest, pfx string) {
	raw, err := m.RawBody()
	zzAssert(err == nil, pfx+"_raw_body_available")
	d := m.GetDescriptor()
	zzAssert(d.Digest == d.DigestAlgo().FromBytes(raw), pfx+"_digest_is_hash_of_raw_body")
	zzAssert(d.Size == int64(len(raw)), pfx+"_size_is_length_of_raw_body")
	out, err := m.MarshalJSON()
	zzAssert(err == nil && bytes.Equal(out, raw), pfx+"_pushed_bytes_are_the_raw_body")
}

// Fetch: a body arrives together with expected digests from a descriptor, the
// reference and a header (each absent, right or wrong). A manifest is
// returned only if the first expected digest present matches the bytes; on
// success the bytes are kept verbatim.
func ZZC02_fetch() {
	kind := zzInt("kind", 0, 4)
	st, mt := zzStruct(kind)
	raw, err := json.Marshal(st)
	zzAssert(err == nil, "struct_marshals")
	switch zzInt("variant", 0, 2) { // non-canonical serialisations of the same document
	case 1:
		raw = append([]byte(" "), raw...)
	case 2:
		raw = append(append([]byte(`{"zz.unknown":[1,{"a":null}],`), raw[1:]...), '\n')
	}
	trueDig := digest.FromBytes(raw)
	var opts []Opts
	opts = append(opts, WithRaw(raw))
	var expect []digest.Digest
	r := ref.Ref{Scheme: "reg", Registry: "reg.example", Repository: "repo", Tag: "t"}
	if zzBool("desc_digest") {
		d := digest.Digest(zzDigest("desc_dig", "sha256"))
		opts = append(opts, WithDesc(descriptor.Descriptor{Digest: d, MediaType: mt}))
		expect = append(expect, d)
	}
	if zzBool("ref_digest") {
		d := digest.Digest(zzDigest("ref_dig", "sha256"))
		r.Digest = d.String()
		expect = append(expect, d)
	}
	opts = append(opts, WithRef(r))
	if zzBool("header") {
		h := http.Header{}
		h.Set("Content-Type", mt)
		if zzBool("header_digest") {
			d := digest.Digest(zzDigest("hdr_dig", "sha256"))
			h.Set("Docker-Content-Digest", d.String())
			expect = append(expect, d)
		}
		opts = append(opts, WithHeader(h))
	}
	m, err := New(opts...)
	zzReach("new_returned")
	if err != nil {
		zzReach("rejected")
		// rejection needs a reason: some expected digest present and the first one wrong
		zzAssert(len(expect) > 0 && expect[0] != trueDig, "well_formed_body_with_right_digest_is_accepted")
		return
	}
	zzReach("accepted")
	if len(expect) > 0 {
		zzAssert(expect[0] == trueDig, "accepted_only_if_first_expected_digest_matches")
	}
	zzAssert(m.GetDescriptor().Digest == trueDig, "fetch_digest_is_hash_of_bytes")
	zzAssert(m.GetDescriptor().MediaType == mt, "fetch_media_type_matches_body")
	got, _ := m.RawBody()
	zzAssert(bytes.Equal(got, raw), "fetch_bytes_kept_verbatim")
	zzEquation(m, "fetch")
}

// Construction from a struct and one setter step from any manifest: the
// equation holds again and the getters return what was set.
func ZZC02_setter_step() {
	kind := zzInt("kind", 0, 4)
	st, _ := zzStruct(kind)
	var m Manifest
	var err error
	if zzBool("from_raw") {
		raw, _ := json.Marshal(st)
		m, err = New(WithRaw(raw))
	} else {
		m, err = New(WithOrig(st))
	}
	zzAssert(err == nil, "construction_succeeds")
	zzEquation(m, "built")
	zzReach("built")
	switch zzInt("setter", 0, 5) {
	case 0:
		ma, ok := m.(Annotator)
		if !ok {
			return
		}
		v := zzString("new_ann", 1)
		if ma.SetAnnotation("org.example.added", v) != nil {
			return
		}
		zzReach("annotation_set")
		a, err := ma.GetAnnotations()
		zzAssert(err == nil && a["org.example.added"] == v, "annotation_getter_returns_what_was_set")
	case 1:
		mi, ok := m.(Imager)
		if !ok {
			return
		}
		nd := zzDesc(mediatype.OCI1ImageConfig)
		if mi.SetConfig(nd) != nil {
			return
		}
		zzReach("config_set")
		g, err := mi.GetConfig()
		zzAssert(err == nil && g.Digest == nd.Digest && g.Size == nd.Size, "config_getter_returns_what_was_set")
	case 2:
		mi, ok := m.(Imager)
		if !ok {
			return
		}
		dl := []descriptor.Descriptor{zzDesc(mediatype.OCI1LayerGzip)}
		if mi.SetLayers(dl) != nil {
			return
		}
		zzReach("layers_set")
		g, err := mi.GetLayers()
		zzAssert(err == nil && len(g) == 1 && g[0].Digest == dl[0].Digest, "layers_getter_returns_what_was_set")
	case 3:
		mi, ok := m.(Indexer)
		if !ok {
			return
		}
		dl := []descriptor.Descriptor{zzDesc(mediatype.OCI1Manifest)}
		if mi.SetManifestList(dl) != nil {
			return
		}
		zzReach("manifest_list_set")
		g, err := mi.GetManifestList()
		zzAssert(err == nil && len(g) == 1 && g[0].Digest == dl[0].Digest, "manifest_list_getter_returns_what_was_set")
	case 4:
		ms, ok := m.(Subjecter)
		if !ok {
			return
		}
		s := zzDesc(mediatype.OCI1Manifest)
		if ms.SetSubject(&s) != nil {
			return
		}
		zzReach("subject_set")
		g, err := ms.GetSubject()
		zzAssert(err == nil && g != nil && g.Digest == s.Digest, "subject_getter_returns_what_was_set")
	case 5:
		st2, _ := zzStruct(kind)
		if m.SetOrig(st2) != nil {
			return
		}
		zzReach("orig_set")
	}
	zzEquation(m, "after_setter")
	// the pushed serialisation parses back to the values the getters return
	raw, _ := m.RawBody()
	m2, err := New(WithRaw(raw), WithDesc(descriptor.Descriptor{MediaType: m.GetDescriptor().MediaType}))
	zzAssert(err == nil && m2.GetDescriptor().Digest == m.GetDescriptor().Digest, "serialisation_parses_back")
	zzSameContent(m, m2)
}

func zzSameList(a, b []descriptor.Descriptor) bool {
	if len(a) != len(b) {
		return false
	}
	for i := range a {
		if a[i].Digest != b[i].Digest || a[i].Size != b[i].Size || a[i].MediaType != b[i].MediaType {
			return false
		}
	}
	return true
}

func zzSameContent(m, m2 Manifest) {
	if mi, ok := m.(Imager); ok {
		mi2 := m2.(Imager)
		c1, e1 := mi.GetConfig()
		c2, e2 := mi2.GetConfig()
		zzAssert((e1 == nil) == (e2 == nil) && c1.Digest == c2.Digest, "serialised_config_is_the_getter_value")
		l1, _ := mi.GetLayers()
		l2, _ := mi2.GetLayers()
		zzAssert(zzSameList(l1, l2), "serialised_layers_are_the_getter_value")
	}
	if mi, ok := m.(Indexer); ok {
		l1, _ := mi.GetManifestList()
		l2, _ := m2.(Indexer).GetManifestList()
		zzAssert(zzSameList(l1, l2), "serialised_manifest_list_is_the_getter_value")
	}
	if ma, ok := m.(Annotator); ok {
		a1, _ := ma.GetAnnotations()
		a2, _ := m2.(Annotator).GetAnnotations()
		zzAssert(len(a1) == len(a2), "serialised_annotations_count")
		for k, v := range a1 {
			zzAssert(a2[k] == v, "serialised_annotations_are_the_getter_value")
		}
	}
	if ms, ok := m.(Subjecter); ok {
		s1, _ := ms.GetSubject()
		s2, _ := m2.(Subjecter).GetSubject()
		zzAssert((s1 == nil) == (s2 == nil) && (s1 == nil || s1.Digest == s2.Digest), "serialised_subject_is_the_getter_value")
	}
}
