//zz:pkg .
//zz:subst scheme/ocidir os
//zz:hook internal/reghttp Client.Do
//zz:use zzreg
package regclient

import (
	"context"
	"io"
	"log/slog"
	"net/http"

	"github.com/opencontainers/go-digest"

	"github.com/regclient/regclient/internal/reghttp"
	zzos "github.com/regclient/regclient/internal/zzos"
	"github.com/regclient/regclient/internal/zzreg"
	"github.com/regclient/regclient/scheme/reg"
	"github.com/regclient/regclient/types/ref"
)

// Fetch and re-push through the real client (RegClient.ManifestGet /
// ManifestPut over scheme/reg on a zzreg registry, or scheme/ocidir on the os
// model): the store holds a body in one of several serialisations (canonical,
// reordered keys with an unknown field, extra whitespace) with a symbolic
// annotation byte; the reference names it by tag, by its digest, or by a wrong
// digest; the registry announces the right digest, a wrong one, or none.
// A manifest is returned only if the bytes hash to the digest asked for; its
// raw bytes, digest and size are those of the stored bytes; pushing it to
// another tag stores the very same bytes under the same digest.
func ZZC02_wiring() {
	a := zzString("ann", 1)
	zzAssume(a[0] >= 'a' && a[0] <= 'z')
	const cfg = `{"mediaType":"application/vnd.oci.image.config.v1+json","digest":"sha256:44136fa355b3678a1146ad16f7e8649e94fb4fc21fe77e8310c060f61caaff8a","size":2}`
	var body string
	switch zzInt("serialisation", 0, 2) {
	case 0:
		body = `{"schemaVersion":2,"mediaType":"application/vnd.oci.image.manifest.v1+json","config":` + cfg + `,"layers":[],"annotations":{"k":"` + a + `"}}`
	case 1: // other key order, an unknown field
		body = `{"annotations":{"k":"` + a + `"},"x-unknown":[1,2],"layers":[],"config":` + cfg + `,"mediaType":"application/vnd.oci.image.manifest.v1+json","schemaVersion":2}`
	case 2: // whitespace
		body = "{\n  \"schemaVersion\": 2,\n  \"mediaType\": \"application/vnd.oci.image.manifest.v1+json\",\n  \"config\": " + cfg + ",\n  \"layers\": [],\n  \"annotations\": {\"k\": \"" + a + "\"}\n}\n"
	}
	stored := []byte(body)
	dg := digest.FromBytes(stored)
	wrong := digest.FromBytes([]byte("another manifest"))
	rc := New(WithRegOpts(reg.WithTransport(&http.Transport{})), WithSlog(slog.New(slog.NewTextHandler(io.Discard, nil))))
	ctx := context.Background()
	onRegistry := zzBool("registry")
	var base ref.Ref
	var srv *zzreg.Registry
	header := 0
	if onRegistry {
		srv = zzreg.New("a.example")
		srv.PutBlob("repo", []byte("{}"))
		srv.PutManifest("repo", "v1", "application/vnd.oci.image.manifest.v1+json", stored)
		header = zzInt("announced_digest", 0, 3) // 0 right, 1 none, 2 wrong, 3 present but not a well-formed digest
		srv.HeadDigest = header != 1
		if header == 2 {
			srv.DigestHeaderOverride = wrong.String()
		}
		if header == 3 {
			// the right digest cut short / another algorithm: nothing the bytes can hash to
			srv.DigestHeaderOverride = []string{dg.String()[:40], "md5:0123456789abcdef0123456789abcdef"}[zzInt("malformed_kind", 0, 1)]
		}
		reghttp.ZZHook_Client_Do = srv.Do
		base, _ = ref.New("a.example/repo")
	} else {
		zzos.Reset()
		zzos.Cur.Put("/lay/oci-layout", []byte(`{"imageLayoutVersion":"1.0.0"}`))
		zzos.Cur.Put("/lay/blobs/sha256/44136fa355b3678a1146ad16f7e8649e94fb4fc21fe77e8310c060f61caaff8a", []byte("{}"))
		zzos.Cur.Put("/lay/blobs/sha256/"+dg.Encoded(), stored)
		zzos.Cur.Put("/lay/index.json", []byte(`{"schemaVersion":2,"mediaType":"application/vnd.oci.image.index.v1+json","manifests":[{"mediaType":"application/vnd.oci.image.manifest.v1+json","digest":"`+dg.String()+`","size":`+itoa(len(stored))+`,"annotations":{"org.opencontainers.image.ref.name":"v1"}}]}`))
		base, _ = ref.New("ocidir:///lay")
	}
	r := base.SetTag("v1")
	asked := 0
	switch zzInt("asked_by", 0, 2) {
	case 1:
		r, asked = base.SetDigest(dg.String()), 1
	case 2:
		// a store that serves these bytes under a digest they do not have
		r, asked = base.SetDigest(wrong.String()), 2
		if onRegistry {
			srv.Repo("repo").Manifests[wrong.String()] = stored
			srv.Repo("repo").MT[wrong.String()] = "application/vnd.oci.image.manifest.v1+json"
		} else {
			zzos.Cur.Put("/lay/blobs/sha256/"+wrong.Encoded(), stored)
		}
	}
	m, err := rc.ManifestGet(ctx, r)
	if err != nil {
		zzReach("get_refused")
		zzAssert(asked == 2 || header >= 2, "honest_fetch_succeeds")
		return
	}
	zzReach("get_succeeded")
	zzAssert(asked != 2, "returned_only_if_bytes_match_the_digest_asked_for")
	zzAssert(!(asked == 0 && header >= 2), "returned_only_if_bytes_match_the_announced_digest")
	raw, rerr := m.RawBody()
	zzAssert(rerr == nil && string(raw) == body, "raw_bytes_preserved")
	d := m.GetDescriptor()
	zzAssert(d.Digest == dg && d.Size == int64(len(stored)), "descriptor_is_hash_and_length_of_the_bytes")
	// re-push under another tag
	perr := rc.ManifestPut(ctx, base.SetTag("v2"), m)
	zzAssert(perr == nil, "repush_succeeds")
	if onRegistry {
		srv.DigestHeaderOverride = ""
		got := srv.Repo("repo").Manifests[srv.Repo("repo").Tags["v2"]]
		zzAssert(srv.Repo("repo").Tags["v2"] == dg.String() && string(got) == body, "repush_keeps_bytes_and_digest")
	} else {
		got, _ := zzos.Cur.Data("/lay/blobs/sha256/" + dg.Encoded())
		zzAssert(string(got) == body, "repush_keeps_bytes_and_digest")
		m2, gerr := rc.ManifestGet(ctx, base.SetTag("v2"))
		zzAssert(gerr == nil && m2.GetDescriptor().Digest == dg, "repush_keeps_bytes_and_digest")
	}
	// push by a digest of the other algorithm: what was stored under that name is returned under it
	d512 := digest.SHA512.FromBytes([]byte(body))
	r512 := base.SetDigest(d512.String())
	if rc.ManifestPut(ctx, r512, m) == nil {
		zzReach("pushed_by_a_sha512_reference")
		m3, gerr := rc.ManifestGet(ctx, r512)
		zzAssert(gerr == nil, "manifest_pushed_by_digest_is_found_under_that_digest")
		if gerr == nil {
			raw3, _ := m3.RawBody()
			zzAssert(string(raw3) == body && m3.GetDescriptor().Digest == d512, "manifest_pushed_by_digest_is_found_under_that_digest")
		}
	}
}

func itoa(n int) string {
	if n == 0 {
		return "0"
	}
	s := ""
	for n > 0 {
		s = string(rune('0'+n%10)) + s
		n /= 10
	}
	return s
}
