//zz:pkg .
//zz:subst scheme/ocidir os
//zz:subst . os
//zz:subst . archive/tar
//zz:hook pkg/archive Compress
package regclient

import (
	"bytes"
	"context"
	"encoding/json"
	"io"

	"github.com/opencontainers/go-digest"

	zzos "github.com/regclient/regclient/internal/zzos"
	zztar "github.com/regclient/regclient/internal/zztar"
	"github.com/regclient/regclient/pkg/archive"
	"github.com/regclient/regclient/types/docker/schema2"
	"github.com/regclient/regclient/types/ref"
)

// Import of a Docker-format archive (docker save): manifest.json naming a
// config file and 1-3 layer files, where two positions may name the same file
// (an image that repeats a layer), entries in a symbolic rotation. Compression
// is modelled by a marker prefix (hook on archive.Compress). The imported
// image has the archive's config bytes and, position by position, layers that
// decompress to the archive's layer files.
func ZZC09_import_docker() {
	zzos.Reset()
	archive.ZZHook_Compress = func(r io.Reader, t archive.CompressType) (io.ReadCloser, error) {
		b, err := io.ReadAll(r)
		if err != nil {
			return nil, err
		}
		return io.NopCloser(bytes.NewReader(append([]byte("ZZGZ"), b...))), nil
	}
	cfg := []byte(`{"architecture":"amd64","os":"linux","rootfs":{"type":"layers","diff_ids":[]}}`)
	n := zzInt("n_layers", 1, 3)
	for k := 1; k <= 3; k++ {
		if n == k {
			n = k
			break
		}
	}
	files := [][]byte{[]byte("layer-zero"), []byte("layer-one"), []byte("layer-two")}
	var which []int // layer position -> file
	for i := 0; i < n; i++ {
		w := i
		if i > 0 && zzBool("repeats_an_earlier_layer") {
			w = which[zzInt("repeated", 0, i-1)]
		}
		which = append(which, w)
	}
	names := []string{"aaa/layer.tar", "bbb/layer.tar", "ccc/layer.tar"}
	var layerPaths []string
	for _, w := range which {
		layerPaths = append(layerPaths, names[w])
	}
	mj, _ := json.Marshal([]map[string]interface{}{{"Config": "config.json", "RepoTags": []string{"img:v1"}, "Layers": layerPaths}})
	var entries []zztar.Entry
	add := func(name string, data []byte) {
		entries = append(entries, zztar.Entry{Hdr: zztar.Header{Name: name, Typeflag: zztar.TypeReg, Size: int64(len(data)), Mode: 0644}, Data: data})
	}
	add("manifest.json", mj)
	add("config.json", cfg)
	used := map[int]bool{}
	for _, w := range which {
		if !used[w] {
			used[w] = true
			add(names[w], files[w])
		}
	}
	order := entries
	if zzBool("rotated") {
		k := zzInt("rotate", 1, len(entries)-1)
		order = append(append([]zztar.Entry{}, entries[k:]...), entries[:k]...)
	}
	zztar.Input = order
	zzos.Cur.Put("/in.tar", []byte("tar"))
	fh, _ := zzos.Open("/in.tar")
	rTgt, _ := ref.New("ocidir://" + zzTgt + ":v1")
	err := New().ImageImport(context.Background(), rTgt, fh)
	zzAssert(err == nil, "docker_archive_imports")
	if err != nil {
		return
	}
	zzReach("docker_imported")
	top := zzTagOf(zzTgt)
	zzAssert(top != "", "docker_import_tags_the_image")
	mb, ok := zzos.Cur.Data(zzBlobFile(zzTgt, top))
	zzAssert(ok, "docker_import_tags_the_image")
	var m schema2.Manifest
	zzAssert(json.Unmarshal(mb, &m) == nil, "docker_manifest_parses")
	cb, ok := zzos.Cur.Data(zzBlobFile(zzTgt, m.Config.Digest))
	zzAssert(ok && string(cb) == string(cfg) && m.Config.Digest == digest.FromBytes(cfg), "docker_import_keeps_the_config")
	zzAssert(len(m.Layers) == n, "docker_import_has_one_layer_per_position")
	for i := range m.Layers {
		if i >= n {
			break
		}
		if len(which) > 1 && which[i] != i {
			zzReach("repeated_layer")
		}
		zzAssert(m.Layers[i].Digest != "", "docker_import_layer_descriptor_is_set")
		if m.Layers[i].Digest == "" {
			continue
		}
		lb, ok := zzos.Cur.Data(zzBlobFile(zzTgt, m.Layers[i].Digest))
		zzAssert(ok && m.Layers[i].Size == int64(len(lb)), "docker_import_layer_present")
		zzAssert(ok && string(lb) == "ZZGZ"+string(files[which[i]]), "docker_import_layer_is_the_archives_layer")
	}
}
