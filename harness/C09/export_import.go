//zz:pkg .
//zz:subst scheme/ocidir os
//zz:subst . archive/tar
package regclient

import (
	"bytes"
	"context"
	"encoding/json"
	"path"
	"strings"

	"github.com/opencontainers/go-digest"

	zzos "github.com/regclient/regclient/internal/zzos"
	zztar "github.com/regclient/regclient/internal/zztar"
	"github.com/regclient/regclient/types/descriptor"
	"github.com/regclient/regclient/types/mediatype"
	v1 "github.com/regclient/regclient/types/oci/v1"
	"github.com/regclient/regclient/types/ref"
)

// Export then import, with the real ImageExport / ImageImport (tarReadAll,
// handlers, push order) over the API-level tar model and OCI layouts on the
// in-memory os model.

const zzSrc, zzTgt = "/src", "/tgt"

type zzWorld struct {
	pool  []descriptor.Descriptor
	bytes map[digest.Digest][]byte
	top   descriptor.Descriptor
	all   []digest.Digest // closure of top (manifests and blobs)
	mans  map[digest.Digest]bool
}

func zzBlobFile(root string, d digest.Digest) string {
	return path.Join(root, "blobs", d.Algorithm().String(), d.Encoded())
}

func (w *zzWorld) put(b []byte, mt string, manifest bool) descriptor.Descriptor {
	d := digest.FromBytes(b)
	w.bytes[d] = b
	if manifest {
		w.mans[d] = true
	}
	zzos.Cur.Put(zzBlobFile(zzSrc, d), b)
	return descriptor.Descriptor{MediaType: mt, Digest: d, Size: int64(len(b))}
}

var zzSmall bool
var zzWantNested bool // the export/import harness also draws nested indexes

func (w *zzWorld) image(id int) descriptor.Descriptor {
	cfg := w.put([]byte(`{"architecture":"amd64","os":"linux","id":`+string(rune('0'+id))+`}`), mediatype.OCI1ImageConfig, false)
	w.all = append(w.all, cfg.Digest)
	nl := 1
	if !zzSmall {
		nl = zzInt("n_layers", 1, 2)
	}
	layers := []descriptor.Descriptor{}
	for i := 0; i < nl; i++ {
		l := w.pool[zzInt("layer", 0, len(w.pool)-1)] // layers may be shared or repeated
		layers = append(layers, l)
		w.all = append(w.all, l.Digest)
	}
	b, _ := json.Marshal(v1.Manifest{Versioned: v1.ManifestSchemaVersion, MediaType: mediatype.OCI1Manifest, Config: cfg, Layers: layers})
	d := w.put(b, mediatype.OCI1Manifest, true)
	w.all = append(w.all, d.Digest)
	return d
}

func zzBuildWorld() *zzWorld {
	zzos.Reset()
	w := &zzWorld{bytes: map[digest.Digest][]byte{}, mans: map[digest.Digest]bool{}}
	for i := 0; i < 2; i++ {
		w.pool = append(w.pool, w.put([]byte{'l', byte('0' + i)}, mediatype.OCI1LayerGzip, false))
	}
	if zzBool("is_index") {
		n := zzInt("n_images", 1, 2)
		idx := v1.Index{Versioned: v1.IndexSchemaVersion, MediaType: mediatype.OCI1ManifestList}
		for i := 0; i < n; i++ {
			idx.Manifests = append(idx.Manifests, w.image(i))
		}
		if zzWantNested && zzBool("nested_index_sharing_a_child") {
			// I -> [A, ..., N], N -> [A]: a nested index that shares its child with its parent
			nb, _ := json.Marshal(v1.Index{Versioned: v1.IndexSchemaVersion, MediaType: mediatype.OCI1ManifestList, Manifests: []descriptor.Descriptor{idx.Manifests[0]}})
			nd := w.put(nb, mediatype.OCI1ManifestList, true)
			w.all = append(w.all, nd.Digest)
			if zzBool("nested_first") {
				idx.Manifests = append([]descriptor.Descriptor{nd}, idx.Manifests...)
			} else {
				idx.Manifests = append(idx.Manifests, nd)
			}
		}
		b, _ := json.Marshal(idx)
		w.top = w.put(b, mediatype.OCI1ManifestList, true)
		w.all = append(w.all, w.top.Digest)
	} else {
		w.top = w.image(0)
	}
	top := w.top
	top.Annotations = map[string]string{"org.opencontainers.image.ref.name": "v1"}
	sidx := v1.Index{Versioned: v1.IndexSchemaVersion, MediaType: mediatype.OCI1ManifestList, Manifests: []descriptor.Descriptor{top}}
	sb, _ := json.Marshal(sidx)
	zzos.Cur.Put(zzSrc+"/oci-layout", []byte(`{"imageLayoutVersion":"1.0.0"}`))
	zzos.Cur.Put(zzSrc+"/index.json", sb)
	return w
}

func zzTagOf(root string) digest.Digest {
	b, ok := zzos.Cur.Data(root + "/index.json")
	if !ok {
		return ""
	}
	var idx v1.Index
	if json.Unmarshal(b, &idx) != nil {
		return "invalid"
	}
	for _, e := range idx.Manifests {
		if e.Annotations["org.opencontainers.image.ref.name"] == "v1" {
			return e.Digest
		}
	}
	return ""
}

// zzRefsPresent: every object the manifest bytes reference exists under root.
func zzRefsPresent(root string, b []byte) bool {
	var probe struct {
		Manifests []descriptor.Descriptor `json:"manifests"`
		Config    *descriptor.Descriptor  `json:"config"`
		Layers    []descriptor.Descriptor `json:"layers"`
	}
	if json.Unmarshal(b, &probe) != nil {
		return true
	}
	for _, m := range probe.Manifests {
		if !zzos.Cur.Exists(zzBlobFile(root, m.Digest)) {
			return false
		}
	}
	if probe.Config != nil && probe.Config.Digest != "" && !zzos.Cur.Exists(zzBlobFile(root, probe.Config.Digest)) {
		return false
	}
	for _, l := range probe.Layers {
		if !zzos.Cur.Exists(zzBlobFile(root, l.Digest)) {
			return false
		}
	}
	return true
}

// Export: the archive is a well-formed OCI layout naming the image with its
// tag. Import of the same entries in a symbolic order: the target ends up
// with the same top digest and the complete, byte-identical content.
func ZZC09_export_import() {
	zzWantNested = true
	w := zzBuildWorld()
	zzWantNested = false
	rc := New()
	rSrc, _ := ref.New("ocidir://" + zzSrc + ":v1")
	zztar.Output = nil
	var sink bytes.Buffer
	err := rc.ImageExport(context.Background(), rSrc, &sink)
	zzAssert(err == nil, "export_succeeds")
	zzReach("exported")
	entries := zztar.Output
	// ---- archive validity ----
	seen := map[string]int{}
	hasLayout, hasIndex := false, false
	for _, e := range entries {
		name := strings.TrimPrefix(e.Hdr.Name, "./")
		seen[name]++
		if e.Hdr.Typeflag == zztar.TypeDir {
			continue
		}
		zzAssert(int64(len(e.Data)) == e.Hdr.Size, "archive_entry_size_matches_payload")
		switch {
		case name == "oci-layout":
			hasLayout = true
			var l v1.ImageLayout
			zzAssert(json.Unmarshal(e.Data, &l) == nil && l.Version == "1.0.0", "archive_layout_marker_valid")
		case name == "index.json":
			hasIndex = true
			var idx v1.Index
			zzAssert(json.Unmarshal(e.Data, &idx) == nil, "archive_index_is_json")
			found := false
			for _, m := range idx.Manifests {
				if m.Digest == w.top.Digest {
					found = true
					zzAssert(m.Annotations["org.opencontainers.image.ref.name"] != "", "archive_index_names_image_with_tag")
				}
			}
			zzAssert(found, "archive_index_names_the_exported_image")
		case strings.HasPrefix(name, "blobs/"):
			alg := digest.Algorithm(path.Base(path.Dir(name)))
			zzAssert(alg.FromBytes(e.Data).Encoded() == path.Base(name), "archive_blob_matches_its_name")
		}
	}
	zzAssert(hasLayout && hasIndex, "archive_has_layout_and_index")
	for _, d := range w.all {
		n := seen["blobs/"+d.Algorithm().String()+"/"+d.Encoded()]
		zzAssert(n == 1, "archive_holds_each_reachable_digest_exactly_once")
	}
	// ---- Docker-loadable part: a single image also carries manifest.json naming the
	// config file and one layer file per layer position, in the image's order ----
	if !w.mans[w.top.Digest] || !strings.Contains(string(w.bytes[w.top.Digest]), `"manifests"`) {
		var top v1.Manifest
		zzAssert(json.Unmarshal(w.bytes[w.top.Digest], &top) == nil, "source_image_parses")
		var dm []struct {
			Config   string
			RepoTags []string
			Layers   []string
		}
		found := false
		for _, e := range entries {
			if strings.TrimPrefix(e.Hdr.Name, "./") == "manifest.json" {
				found = true
				zzAssert(json.Unmarshal(e.Data, &dm) == nil && len(dm) == 1, "docker_manifest_is_one_entry")
			}
		}
		zzAssert(found, "single_image_carries_a_docker_manifest")
		if found && len(dm) == 1 {
			zzReach("docker_manifest_checked")
			zzAssert(dm[0].Config == "blobs/sha256/"+top.Config.Digest.Encoded(), "docker_manifest_names_the_config")
			zzAssert(len(dm[0].Layers) == len(top.Layers), "docker_manifest_lists_one_file_per_layer_position")
			for i := range top.Layers {
				if i < len(dm[0].Layers) {
					zzAssert(dm[0].Layers[i] == "blobs/sha256/"+top.Layers[i].Digest.Encoded(), "docker_manifest_layers_in_image_order")
				}
			}
			zzAssert(len(dm[0].RepoTags) == 1, "docker_manifest_has_a_repo_tag")
		}
	}
	// ---- import in a symbolic order ----
	var files []zztar.Entry
	for _, e := range entries {
		if e.Hdr.Typeflag != zztar.TypeDir {
			files = append(files, e)
		}
	}
	var order []zztar.Entry
	switch zzInt("order", 0, 2) {
	case 0:
		order = files
	case 1: // reversed
		for i := len(files) - 1; i >= 0; i-- {
			order = append(order, files[i])
		}
	case 2: // rotated by a symbolic amount
		k := zzInt("rotate", 1, len(files)-1)
		order = append(append(order, files[k:]...), files[:k]...)
	}
	zztar.Input = order
	zzos.Cur.Put("/in.tar", []byte("tar"))
	fh, _ := zzos.Open("/in.tar")
	rTgt, _ := ref.New("ocidir://" + zzTgt + ":v1")
	zzos.Cur.Observer = func(op zzos.Op) {
		if op.Kind == "rename" && strings.HasPrefix(op.Path2, zzTgt+"/blobs/") && w.mans[digest.Digest("sha256:"+path.Base(op.Path2))] {
			data, _ := zzos.Cur.Data(op.Path)
			zzAssert(zzRefsPresent(zzTgt, data), "import_pushes_blobs_and_nested_manifests_before_their_parent")
		}
	}
	err = rc.ImageImport(context.Background(), rTgt, fh)
	zzos.Cur.Observer = nil
	zzAssert(err == nil, "import_succeeds")
	zzReach("imported")
	zzAssert(zzTagOf(zzTgt) == w.top.Digest, "import_yields_the_same_top_digest")
	for _, d := range w.all {
		got, ok := zzos.Cur.Data(zzBlobFile(zzTgt, d))
		zzAssert(ok && string(got) == string(w.bytes[d]), "import_yields_complete_identical_content")
	}
}

// Import selection from an archive written by another tool: an OCI layout with
// two tagged images ("a" and "b", possibly sharing a layer) tarred in a
// symbolic order. The image to import is chosen by name (ImageWithImportName),
// by the tag of the target reference, or by a digest in the target reference;
// the target then holds exactly that image, complete and byte-identical, under
// the target tag, and when the request names nothing in the archive the import
// fails instead of picking something else.
func ZZC09_import_select() {
	zzos.Reset()
	w := &zzWorld{bytes: map[digest.Digest][]byte{}, mans: map[digest.Digest]bool{}}
	for i := 0; i < 2; i++ {
		w.pool = append(w.pool, w.put([]byte{'l', byte('0' + i)}, mediatype.OCI1LayerGzip, false))
	}
	zzSmall = true
	var imgs []descriptor.Descriptor
	var closure [][]digest.Digest
	idx := v1.Index{Versioned: v1.IndexSchemaVersion, MediaType: mediatype.OCI1ManifestList}
	for i, name := range []string{"a", "b"} {
		before := len(w.all)
		d := w.image(i)
		closure = append(closure, append([]digest.Digest{}, w.all[before:]...))
		imgs = append(imgs, d)
		e := d
		e.Annotations = map[string]string{"org.opencontainers.image.ref.name": name}
		idx.Manifests = append(idx.Manifests, e)
	}
	zzSmall = false
	ib, _ := json.Marshal(idx)
	// the archive
	var files []zztar.Entry
	add := func(name string, data []byte) {
		files = append(files, zztar.Entry{Hdr: zztar.Header{Name: name, Typeflag: zztar.TypeReg, Size: int64(len(data)), Mode: 0644}, Data: data})
	}
	add("oci-layout", []byte(`{"imageLayoutVersion":"1.0.0"}`))
	add("index.json", ib)
	done := map[digest.Digest]bool{}
	for _, d := range w.all {
		if !done[d] {
			done[d] = true
			add("blobs/sha256/"+d.Encoded(), w.bytes[d])
		}
	}
	order := files
	if zzBool("rotated") {
		k := zzInt("rotate", 1, len(files)-1)
		order = append(append([]zztar.Entry{}, files[k:]...), files[:k]...)
	}
	zztar.Input = order
	zzos.Cur.Put("/in.tar", []byte("tar"))
	fh, _ := zzos.Open("/in.tar")
	// the request
	tgtTag := []string{"a", "b", "x"}[zzInt("target_tag", 0, 2)]
	rTgt, _ := ref.New("ocidir://" + zzTgt + ":" + tgtTag)
	var opts []ImageOpts
	want := -1 // index of the image that must arrive, -1: the request names nothing in the archive
	switch zzInt("select_by", 0, 2) {
	case 0: // by the tag of the target reference
		if tgtTag == "a" {
			want = 0
		} else if tgtTag == "b" {
			want = 1
		}
	case 1: // by name
		n := zzInt("import_name", 0, 2)
		opts = append(opts, ImageWithImportName([]string{"a", "b", "nosuch"}[n]))
		if n < 2 {
			want = n
		}
	case 2: // by digest in the target reference
		want = zzInt("digest_of", 0, 1)
		rTgt = rTgt.AddDigest(imgs[want].Digest.String())
	}
	err := rc09().ImageImport(context.Background(), rTgt, fh, opts...)
	zzReach("select_import_returned")
	if want < 0 {
		zzAssert(err != nil, "request_naming_nothing_in_the_archive_fails")
		return
	}
	zzAssert(err == nil, "import_of_a_named_image_succeeds")
	if err != nil {
		return
	}
	zzReach("select_imported")
	got := zzTagOfName(zzTgt, tgtTag)
	zzAssert(got == imgs[want].Digest, "import_yields_the_requested_image")
	for _, d := range closure[want] {
		b, ok := zzos.Cur.Data(zzBlobFile(zzTgt, d))
		zzAssert(ok && string(b) == string(w.bytes[d]), "import_yields_complete_identical_content")
	}
}

func rc09() *RegClient { return New() }

func zzTagOfName(root, name string) digest.Digest {
	b, ok := zzos.Cur.Data(root + "/index.json")
	if !ok {
		return ""
	}
	var idx v1.Index
	if json.Unmarshal(b, &idx) != nil {
		return "invalid"
	}
	for _, e := range idx.Manifests {
		if e.Annotations["org.opencontainers.image.ref.name"] == name {
			return e.Digest
		}
	}
	return ""
}

// Import through links: the archive written by ImageExport with one blob
// (symbolic choice) stored under another path and reached through a symbolic
// kind of link - a symlink relative to its own directory (same directory or
// via ../..) or a hard link (name relative to the archive root, same or other
// directory) - placed before or after the data. The import still yields the
// same top digest and complete identical content.
func ZZC09_import_links() {
	zzSmall = true
	w := zzBuildWorld()
	zzSmall = false
	rc := New()
	rSrc, _ := ref.New("ocidir://" + zzSrc + ":v1")
	zztar.Output = nil
	var sink bytes.Buffer
	zzAssert(rc.ImageExport(context.Background(), rSrc, &sink) == nil, "export_succeeds")
	var files []zztar.Entry
	var blobIdx []int
	for _, e := range zztar.Output {
		if e.Hdr.Typeflag == zztar.TypeDir {
			continue
		}
		if strings.HasPrefix(strings.TrimPrefix(e.Hdr.Name, "./"), "blobs/") {
			blobIdx = append(blobIdx, len(files))
		}
		files = append(files, e)
	}
	vi := zzInt("linked_blob", 0, len(blobIdx)-1)
	for k := range blobIdx {
		if vi == k {
			vi = k
			break
		}
	}
	victim := files[blobIdx[vi]]
	name := strings.TrimPrefix(victim.Hdr.Name, "./")
	base := path.Base(name)
	var dataName, linkName string
	var flag byte
	switch zzInt("link_kind", 0, 3) {
	case 0:
		dataName, linkName, flag = path.Dir(name)+"/"+base+".data", base+".data", zztar.TypeSymlink
	case 1:
		dataName, linkName, flag = "store/"+base, "../../store/"+base, zztar.TypeSymlink
	case 2:
		dataName, linkName, flag = "store/"+base, "store/"+base, zztar.TypeLink
	case 3:
		dataName, linkName, flag = path.Dir(name)+"/"+base+".data", path.Dir(name)+"/"+base+".data", zztar.TypeLink
	}
	data := victim
	data.Hdr.Name = dataName
	link := zztar.Entry{Hdr: zztar.Header{Name: name, Typeflag: flag, Linkname: linkName, Mode: 0644}}
	var order []zztar.Entry
	linkFirst := zzBool("link_before_data")
	for i, e := range files {
		if i == blobIdx[vi] {
			if linkFirst {
				order = append(order, link, data)
			} else {
				order = append(order, data, link)
			}
			continue
		}
		order = append(order, e)
	}
	zztar.Input = order
	zzos.Cur.Put("/in.tar", []byte("tar"))
	fh, _ := zzos.Open("/in.tar")
	rTgt, _ := ref.New("ocidir://" + zzTgt + ":v1")
	err := rc.ImageImport(context.Background(), rTgt, fh)
	zzReach("links_import_returned")
	zzAssert(err == nil, "import_through_links_succeeds")
	if err != nil {
		return
	}
	zzReach("links_imported")
	zzAssert(zzTagOf(zzTgt) == w.top.Digest, "import_yields_the_same_top_digest")
	for _, d := range w.all {
		got, ok := zzos.Cur.Data(zzBlobFile(zzTgt, d))
		zzAssert(ok && string(got) == string(w.bytes[d]), "import_yields_complete_identical_content")
	}
}

// An index with a blob-typed entry (a layer media type or an unknown media
// type next to an image manifest): export then import reproduces it - same top
// digest, the blob present and identical.
func ZZC09_blob_entry() {
	zzos.Reset()
	w := &zzWorld{bytes: map[digest.Digest][]byte{}, mans: map[digest.Digest]bool{}}
	for i := 0; i < 2; i++ {
		w.pool = append(w.pool, w.put([]byte{'l', byte('0' + i)}, mediatype.OCI1LayerGzip, false))
	}
	zzSmall = true
	img := w.image(0)
	zzSmall = false
	extra := w.put([]byte("extra-blob"), mediatype.OCI1LayerGzip, false)
	if zzBool("unknown_media_type") {
		extra.MediaType = "application/octet-stream"
	}
	w.all = append(w.all, extra.Digest)
	idx := v1.Index{Versioned: v1.IndexSchemaVersion, MediaType: mediatype.OCI1ManifestList, Manifests: []descriptor.Descriptor{img, extra}}
	if zzBool("blob_entry_first") {
		idx.Manifests = []descriptor.Descriptor{extra, img}
	}
	b, _ := json.Marshal(idx)
	w.top = w.put(b, mediatype.OCI1ManifestList, true)
	w.all = append(w.all, w.top.Digest)
	top := w.top
	top.Annotations = map[string]string{"org.opencontainers.image.ref.name": "v1"}
	sb, _ := json.Marshal(v1.Index{Versioned: v1.IndexSchemaVersion, MediaType: mediatype.OCI1ManifestList, Manifests: []descriptor.Descriptor{top}})
	zzos.Cur.Put(zzSrc+"/oci-layout", []byte(`{"imageLayoutVersion":"1.0.0"}`))
	zzos.Cur.Put(zzSrc+"/index.json", sb)
	rc := New()
	rSrc, _ := ref.New("ocidir://" + zzSrc + ":v1")
	zztar.Output = nil
	var sink bytes.Buffer
	err := rc.ImageExport(context.Background(), rSrc, &sink)
	zzAssert(err == nil, "export_with_blob_entry_succeeds")
	if err != nil {
		return
	}
	zzReach("blob_entry_exported")
	var files []zztar.Entry
	hasExtra := false
	for _, e := range zztar.Output {
		if e.Hdr.Typeflag != zztar.TypeDir {
			files = append(files, e)
			if strings.HasSuffix(e.Hdr.Name, extra.Digest.Encoded()) {
				hasExtra = true
			}
		}
	}
	zzAssert(hasExtra, "archive_holds_the_blob_entry")
	zztar.Input = files
	zzos.Cur.Put("/in.tar", []byte("tar"))
	fh, _ := zzos.Open("/in.tar")
	rTgt, _ := ref.New("ocidir://" + zzTgt + ":v1")
	err = rc.ImageImport(context.Background(), rTgt, fh)
	zzAssert(err == nil, "import_with_blob_entry_succeeds")
	if err != nil {
		return
	}
	zzReach("blob_entry_imported")
	zzAssert(zzTagOf(zzTgt) == w.top.Digest, "import_yields_the_same_top_digest")
	for _, d := range w.all {
		got, ok := zzos.Cur.Data(zzBlobFile(zzTgt, d))
		zzAssert(ok && string(got) == string(w.bytes[d]), "import_yields_complete_identical_content")
	}
}
