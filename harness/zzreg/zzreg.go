// Package zzreg is a distribution-spec registry held in memory, served through
// the reghttp.Client.Do seam (hook ZZHook_Client_Do). It is ordinary Go and
// runs identically under the symbolic engine and in the native replay. Every
// request is handled atomically. Feature switches select what a particular
// registry supports; Before lets a harness inject faults or scheduling points;
// Log records every request for the oracles.
package zzreg

import (
	"bytes"
	"context"
	"encoding/json"
	"fmt"
	"io"
	"net/http"
	"net/url"
	"sort"
	"strconv"
	"strings"

	"github.com/opencontainers/go-digest"

	"github.com/regclient/regclient/internal/reghttp"
)

type Repo struct {
	Blobs     map[string][]byte
	Manifests map[string][]byte
	MT        map[string]string
	Order     []string // manifest digests in push order
	Tags      map[string]string
}

func NewRepo() *Repo {
	return &Repo{Blobs: map[string][]byte{}, Manifests: map[string][]byte{}, MT: map[string]string{}, Tags: map[string]string{}}
}

// Event is one request as the registry saw it.
type Event struct {
	Method string
	Repo   string
	Kind   string // "blob", "manifest", "upload", "referrers", "tags", "other"
	Ref    string // digest, tag or upload id
	Query  string
	Status int
	From   string // mount source repository
}

type Commit struct {
	Repo   string
	Digest string
	Data   []byte
}

type upload struct {
	repo       string
	data       []byte
	broke      bool // a closing PUT of this session already broke off once (PutBreaksAfter)
	undersized bool // a chunk shorter than the announced minimum was received: it has to be the last one
}

type Registry struct {
	Host  string
	Repos map[string]*Repo

	ReferrersAPI         bool   // referrers endpoint and OCI-Subject acknowledgement
	ServerFilter         bool   // the referrers endpoint applies the artifactType filter
	PageSize             int    // referrers page size, 0 = unpaged
	TagPage              int    // tag listing page size enforced by the registry, 0 = unpaged
	RepoPage             int    // _catalog page size enforced by the registry, 0 = unpaged
	TagDelete            bool   // DELETE manifests/<tag> supported
	Mount                bool   // cross-repository mount granted when the named source holds the blob
	HeadDigest           bool   // HEAD/GET of a manifest carries Docker-Content-Digest
	ValidateRefs         bool   // a manifest is rejected unless everything it references is present
	ReadOnly             bool   // every state-changing request is refused (403)
	DigestHeaderOverride string // when set, manifest GET/HEAD announce this digest instead of the real one
	MinChunk             int    // announced with every upload session (OCI-Chunk-Min-Length); a chunk that follows a shorter one is refused
	MaxPutBody           int    // a closing PUT that carries more than this many bytes is refused (413); 0 = no limit
	PutBreaksAfter       int    // >0: the first closing PUT of a session that carries more bytes than this breaks off after that many: the session keeps them and the reply is 500

	// Before runs first for every request. A non-zero result replaces the
	// normal handling: -1 = transport failure, otherwise that status code.
	Before func(ctx context.Context, req *reghttp.Req, ev *Event) int
	// OnCommit is told about every object that becomes visible.
	OnCommit func(kind, repo, dg string, body []byte)

	uploads map[string]*upload
	nUp     int
	Log     []Event
	Commits []Commit // every blob committed through an upload session, in order
}

func New(host string) *Registry {
	return &Registry{Host: host, Repos: map[string]*Repo{}, uploads: map[string]*upload{}, TagDelete: true, HeadDigest: true, ValidateRefs: true}
}

func (r *Registry) Repo(name string) *Repo {
	if rp, ok := r.Repos[name]; ok {
		return rp
	}
	rp := NewRepo()
	r.Repos[name] = rp
	return rp
}

// PutManifest / PutBlob load content directly (pre-state).
func (r *Registry) PutBlob(repo string, b []byte) string {
	dg := digest.FromBytes(b).String()
	r.Repo(repo).Blobs[dg] = b
	return dg
}

func (r *Registry) PutManifest(repo, tag, mt string, b []byte) string {
	rp := r.Repo(repo)
	dg := digest.FromBytes(b).String()
	if _, ok := rp.Manifests[dg]; !ok {
		rp.Order = append(rp.Order, dg)
	}
	rp.Manifests[dg] = b
	rp.MT[dg] = mt
	if tag != "" {
		rp.Tags[tag] = dg
	}
	return dg
}

type manifestProbe struct {
	MediaType    string            `json:"mediaType"`
	ArtifactType string            `json:"artifactType"`
	Manifests    []descProbe       `json:"manifests"`
	Config       *descProbe        `json:"config"`
	Layers       []descProbe       `json:"layers"`
	Blobs        []descProbe       `json:"blobs"`
	Subject      *descProbe        `json:"subject"`
	Annotations  map[string]string `json:"annotations"`
}

type descProbe struct {
	MediaType    string            `json:"mediaType"`
	Digest       string            `json:"digest"`
	Size         int64             `json:"size"`
	URLs         []string          `json:"urls,omitempty"`
	ArtifactType string            `json:"artifactType,omitempty"`
	Annotations  map[string]string `json:"annotations,omitempty"`
}

// RefsPresent reports whether everything the manifest body references is in
// the repository (layers with external URLs are exempt, as in distribution).
func (rp *Repo) RefsPresent(b []byte) bool {
	var p manifestProbe
	if json.Unmarshal(b, &p) != nil {
		return true
	}
	for _, m := range p.Manifests {
		if _, ok := rp.Manifests[m.Digest]; !ok {
			if _, ok := rp.Blobs[m.Digest]; !ok {
				return false
			}
		}
	}
	if p.Config != nil && p.Config.Digest != "" {
		if _, ok := rp.Blobs[p.Config.Digest]; !ok {
			return false
		}
	}
	for _, l := range p.Layers {
		if len(l.URLs) > 0 {
			continue
		}
		if _, ok := rp.Blobs[l.Digest]; !ok {
			return false
		}
	}
	for _, l := range p.Blobs {
		if _, ok := rp.Blobs[l.Digest]; !ok {
			return false
		}
	}
	return true
}

func (rp *Repo) referrers(subject, artifactType string) []descProbe {
	out := []descProbe{}
	for _, dg := range rp.Order {
		b, ok := rp.Manifests[dg]
		if !ok {
			continue
		}
		var p manifestProbe
		if json.Unmarshal(b, &p) != nil || p.Subject == nil || p.Subject.Digest != subject {
			continue
		}
		at := p.ArtifactType
		if at == "" && p.Config != nil {
			at = p.Config.MediaType
		}
		if artifactType != "" && at != artifactType {
			continue
		}
		out = append(out, descProbe{MediaType: rp.MT[dg], Digest: dg, Size: int64(len(b)), ArtifactType: at, Annotations: p.Annotations})
	}
	return out
}

// split takes "/v2/<repo>/<kind>/<rest>" apart; repositories may contain slashes.
func split(p string) (repo, kind, rest string) {
	p = strings.TrimPrefix(p, "/v2/")
	for _, k := range []string{"/blobs/uploads/", "/blobs/", "/manifests/", "/referrers/", "/tags/"} {
		if i := strings.Index(p, k); i >= 0 {
			return p[:i], strings.Trim(k, "/"), p[i+len(k):]
		}
	}
	if strings.HasSuffix(p, "/blobs/uploads") {
		return strings.TrimSuffix(p, "/blobs/uploads"), "blobs/uploads", ""
	}
	return p, "other", ""
}

func queryGet(raw, key string) string {
	for _, kv := range strings.Split(raw, "&") {
		if strings.HasPrefix(kv, key+"=") {
			v, err := url.QueryUnescape(kv[len(key)+1:])
			if err != nil {
				return kv[len(key)+1:]
			}
			return v
		}
	}
	return ""
}

func body(req *reghttp.Req) []byte {
	if req.BodyBytes != nil {
		return req.BodyBytes
	}
	if req.BodyFunc != nil {
		rc, err := req.BodyFunc()
		if err != nil || rc == nil {
			return nil
		}
		b, _ := io.ReadAll(rc)
		_ = rc.Close()
		return b
	}
	return nil
}

// bodyLenOK mirrors net/http: a request whose declared Content-Length (> 0)
// differs from the number of bytes its body yields is never delivered - the
// transport fails it ("http: ContentLength=N with Body length M"). A zero
// length with a body means "unknown" (chunked transfer encoding).
func bodyLenOK(req *reghttp.Req, b []byte) bool {
	return req.BodyLen <= 0 || int64(len(b)) == req.BodyLen
}

// Do serves one request.
func (r *Registry) Do(c *reghttp.Client, ctx context.Context, req *reghttp.Req) (*reghttp.Resp, error) {
	u := req.DirectURL
	if u == nil {
		u = &url.URL{Scheme: "https", Host: r.Host, Path: "/v2/" + req.Repository + "/" + req.Path}
		if req.Repository == "" {
			u.Path = "/v2/" + req.Path
		}
		if req.Query != nil {
			u.RawQuery = req.Query.Encode()
		}
	}
	repo, kind, rest := split(u.Path)
	if u.Path == "/v2/_catalog" {
		repo, kind, rest = "", "catalog", ""
	}
	ev := Event{Method: req.Method, Repo: repo, Ref: rest, Query: u.RawQuery}
	switch kind {
	case "blobs":
		ev.Kind = "blob"
	case "blobs/uploads":
		ev.Kind = "upload"
	case "manifests":
		ev.Kind = "manifest"
	case "referrers":
		ev.Kind = "referrers"
	case "tags":
		ev.Kind = "tags"
	case "catalog":
		ev.Kind = "catalog"
	default:
		ev.Kind = "other"
	}
	reply := func(status int, h http.Header, b []byte) (*reghttp.Resp, error) {
		ev.Status = status
		r.Log = append(r.Log, ev)
		var rdr io.Reader
		if b != nil {
			rdr = bytes.NewReader(b)
		}
		resp := reghttp.ZZNewResp(c, ctx, req, u, status, h, rdr, int64(len(b)))
		if status < 200 || status >= 300 { // as the real Do: any non-2xx reply is an error
			return resp, fmt.Errorf("request failed: %w", reghttp.HTTPError(status))
		}
		return resp, nil
	}
	if err := ctx.Err(); err != nil {
		// as the real Do: nothing is sent on a context that is already done
		ev.Status = -2
		r.Log = append(r.Log, ev)
		return reghttp.ZZNewResp(c, ctx, req, u, 0, nil, nil, 0), err
	}
	transportErr := func() (*reghttp.Resp, error) {
		ev.Status = -1
		r.Log = append(r.Log, ev)
		return reghttp.ZZNewResp(c, ctx, req, u, 0, nil, nil, 0), fmt.Errorf("zzreg: transport error")
	}
	if r.Before != nil {
		if st := r.Before(ctx, req, &ev); st != 0 {
			if st < 0 {
				return transportErr()
			}
			return reply(st, nil, nil)
		}
	}
	mutating := req.Method != "GET" && req.Method != "HEAD"
	if mutating && r.ReadOnly {
		return reply(403, nil, nil)
	}
	if kind == "catalog" {
		if req.Method != "GET" {
			return reply(404, nil, nil)
		}
		names := []string{}
		for n, rp := range r.Repos {
			if len(rp.Manifests) > 0 || len(rp.Blobs) > 0 {
				names = append(names, n)
			}
		}
		sort.Strings(names)
		h := http.Header{"Content-Type": {"application/json"}}
		if last := queryGet(u.RawQuery, "last"); last != "" {
			i := 0
			for i < len(names) && names[i] <= last {
				i++
			}
			names = names[i:]
		}
		page := r.RepoPage
		if n, err := strconv.Atoi(queryGet(u.RawQuery, "n")); err == nil && n > 0 && (page == 0 || n < page) {
			page = n
		}
		if page > 0 && len(names) > page {
			names = names[:page]
			h.Set("Link", "</v2/_catalog?n="+strconv.Itoa(page)+"&last="+url.QueryEscape(names[page-1])+">; rel=\"next\"")
		}
		b, _ := json.Marshal(struct {
			Repositories []string `json:"repositories"`
		}{names})
		return reply(200, h, b)
	}
	rp := r.Repo(repo)
	switch kind {
	case "blobs":
		b, ok := rp.Blobs[rest]
		switch req.Method {
		case "GET", "HEAD":
			if !ok {
				return reply(404, nil, nil)
			}
			h := http.Header{"Content-Type": {"application/octet-stream"}, "Docker-Content-Digest": {rest}, "Content-Length": {strconv.Itoa(len(b))}}
			if req.Method == "HEAD" {
				return reply(200, h, nil)
			}
			return reply(200, h, b)
		case "DELETE":
			if !ok {
				return reply(404, nil, nil)
			}
			delete(rp.Blobs, rest)
			return reply(202, nil, nil)
		}
	case "blobs/uploads":
		switch {
		case req.Method == "POST" && rest == "":
			if dg := queryGet(u.RawQuery, "mount"); dg != "" {
				from := queryGet(u.RawQuery, "from")
				ev.From, ev.Ref = from, dg
				if src, ok := r.Repos[from]; ok && r.Mount && from != "" {
					if b, ok := src.Blobs[dg]; ok {
						rp.Blobs[dg] = b
						if r.OnCommit != nil {
							r.OnCommit("blob", repo, dg, b)
						}
						return reply(201, http.Header{"Location": {"/v2/" + repo + "/blobs/" + dg}, "Docker-Content-Digest": {dg}}, nil)
					}
				}
			}
			r.nUp++
			id := "u" + strconv.Itoa(r.nUp)
			r.uploads[id] = &upload{repo: repo}
			h := http.Header{"Location": {"/v2/" + repo + "/blobs/uploads/" + id}, "Range": {"0-0"}, "Docker-Upload-UUID": {id}}
			if r.MinChunk > 0 {
				h.Set("OCI-Chunk-Min-Length", strconv.Itoa(r.MinChunk))
			}
			return reply(202, h, nil)
		case rest != "":
			up, ok := r.uploads[rest]
			if !ok || up.repo != repo {
				return reply(404, nil, nil)
			}
			end := len(up.data) - 1
			if end < 0 {
				end = 0
			}
			hdr := func() http.Header {
				e := len(up.data) - 1
				if e < 0 {
					e = 0
				}
				return http.Header{"Location": {"/v2/" + repo + "/blobs/uploads/" + rest}, "Range": {"0-" + strconv.Itoa(e)}, "Docker-Upload-UUID": {rest}}
			}
			switch req.Method {
			case "GET":
				return reply(204, hdr(), nil)
			case "DELETE":
				delete(r.uploads, rest)
				return reply(204, nil, nil)
			case "PATCH":
				chunk := body(req)
				if !bodyLenOK(req, chunk) {
					return transportErr()
				}
				if cr := req.Headers.Get("Content-Range"); cr != "" {
					start, _ := strconv.Atoi(strings.SplitN(cr, "-", 2)[0])
					if start != len(up.data) {
						return reply(416, hdr(), nil)
					}
				}
				if up.undersized {
					return reply(400, hdr(), nil) // only the last chunk may be shorter than the minimum
				}
				up.undersized = r.MinChunk > 0 && len(chunk) < r.MinChunk
				up.data = append(up.data, chunk...)
				return reply(202, hdr(), nil)
			case "PUT":
				chunk := body(req)
				if !bodyLenOK(req, chunk) {
					return transportErr()
				}
				if r.MaxPutBody > 0 && len(chunk) > r.MaxPutBody {
					return reply(413, hdr(), nil)
				}
				if r.PutBreaksAfter > 0 && len(chunk) > r.PutBreaksAfter && !up.broke {
					up.broke = true
					up.data = append(up.data, chunk[:r.PutBreaksAfter]...)
					return reply(500, nil, nil)
				}
				data := append(append([]byte{}, up.data...), chunk...)
				want := queryGet(u.RawQuery, "digest")
				dgst, err := digest.Parse(want)
				if err != nil || dgst.Algorithm().FromBytes(data).String() != want {
					delete(r.uploads, rest)
					return reply(400, nil, nil)
				}
				delete(r.uploads, rest)
				rp.Blobs[want] = data
				r.Commits = append(r.Commits, Commit{Repo: repo, Digest: want, Data: data})
				if r.OnCommit != nil {
					r.OnCommit("blob", repo, want, data)
				}
				return reply(201, http.Header{"Location": {"/v2/" + repo + "/blobs/" + want}, "Docker-Content-Digest": {want}}, nil)
			}
		}
	case "manifests":
		isDigest := strings.Contains(rest, ":")
		switch req.Method {
		case "PUT":
			b := body(req)
			dg := digest.FromBytes(b).String()
			if isDigest {
				d, err := digest.Parse(rest)
				if err != nil || d.Algorithm().FromBytes(b).String() != rest {
					return reply(400, nil, nil)
				}
				dg = rest
			}
			if r.ValidateRefs && !rp.RefsPresent(b) {
				return reply(400, nil, nil)
			}
			if _, ok := rp.Manifests[dg]; !ok {
				rp.Order = append(rp.Order, dg)
			}
			rp.Manifests[dg] = b
			rp.MT[dg] = req.Headers.Get("Content-Type")
			if !isDigest {
				rp.Tags[rest] = dg
			}
			if r.OnCommit != nil {
				r.OnCommit("manifest", repo, dg, b)
				if !isDigest {
					r.OnCommit("tag", repo, rest+"="+dg, b)
				}
			}
			h := http.Header{"Docker-Content-Digest": {dg}, "Location": {"/v2/" + repo + "/manifests/" + dg}}
			if r.ReferrersAPI {
				var p manifestProbe
				if json.Unmarshal(b, &p) == nil && p.Subject != nil {
					h.Set("OCI-Subject", p.Subject.Digest)
				}
			}
			return reply(201, h, nil)
		case "GET", "HEAD":
			dg := rest
			if !isDigest {
				dg = rp.Tags[rest]
			}
			b, ok := rp.Manifests[dg]
			if !ok {
				return reply(404, nil, nil)
			}
			h := http.Header{"Content-Type": {rp.MT[dg]}, "Content-Length": {strconv.Itoa(len(b))}}
			if r.HeadDigest {
				h.Set("Docker-Content-Digest", dg)
				if r.DigestHeaderOverride != "" {
					h.Set("Docker-Content-Digest", r.DigestHeaderOverride)
				}
			}
			if req.Method == "HEAD" {
				return reply(200, h, nil)
			}
			return reply(200, h, b)
		case "DELETE":
			if !isDigest {
				if _, ok := rp.Tags[rest]; !ok || !r.TagDelete {
					if !r.TagDelete {
						return reply(405, nil, nil)
					}
					return reply(404, nil, nil)
				}
				delete(rp.Tags, rest)
				return reply(202, nil, nil)
			}
			if _, ok := rp.Manifests[rest]; !ok {
				return reply(404, nil, nil)
			}
			delete(rp.Manifests, rest)
			for i, dg := range rp.Order {
				if dg == rest {
					rp.Order = append(rp.Order[:i:i], rp.Order[i+1:]...)
					break
				}
			}
			for t, dg := range rp.Tags {
				if dg == rest {
					delete(rp.Tags, t)
				}
			}
			return reply(202, nil, nil)
		}
	case "referrers":
		if req.Method != "GET" || !r.ReferrersAPI {
			return reply(404, nil, nil)
		}
		at := queryGet(u.RawQuery, "artifactType")
		h := http.Header{"Content-Type": {"application/vnd.oci.image.index.v1+json"}}
		applied := ""
		if at != "" && r.ServerFilter {
			applied = at
			h.Set("OCI-Filters-Applied", "artifactType")
		}
		all := rp.referrers(rest, applied)
		if r.PageSize > 0 {
			pg, _ := strconv.Atoi(queryGet(u.RawQuery, "page"))
			lo, hi := pg*r.PageSize, (pg+1)*r.PageSize
			if lo > len(all) {
				lo = len(all)
			}
			if hi < len(all) {
				q := "page=" + strconv.Itoa(pg+1)
				if at != "" {
					q += "&artifactType=" + url.QueryEscape(at)
				}
				h.Set("Link", "</v2/"+repo+"/referrers/"+rest+"?"+q+">; rel=\"next\"")
			} else {
				hi = len(all)
			}
			all = all[lo:hi]
		}
		b, _ := json.Marshal(struct {
			SchemaVersion int         `json:"schemaVersion"`
			MediaType     string      `json:"mediaType"`
			Manifests     []descProbe `json:"manifests"`
		}{2, "application/vnd.oci.image.index.v1+json", all})
		return reply(200, h, b)
	case "tags":
		if req.Method != "GET" || rest != "list" {
			return reply(404, nil, nil)
		}
		tags := []string{}
		for t := range rp.Tags {
			tags = append(tags, t)
		}
		sort.Strings(tags)
		h := http.Header{"Content-Type": {"application/json"}}
		if last := queryGet(u.RawQuery, "last"); last != "" {
			i := 0
			for i < len(tags) && tags[i] <= last {
				i++
			}
			tags = tags[i:]
		}
		page := r.TagPage
		if n, err := strconv.Atoi(queryGet(u.RawQuery, "n")); err == nil && n > 0 && (page == 0 || n < page) {
			page = n
		}
		if page > 0 && len(tags) > page {
			tags = tags[:page]
			h.Set("Link", "</v2/"+repo+"/tags/list?n="+strconv.Itoa(page)+"&last="+url.QueryEscape(tags[page-1])+">; rel=\"next\"")
		}
		b, _ := json.Marshal(struct {
			Name string   `json:"name"`
			Tags []string `json:"tags"`
		}{repo, tags})
		return reply(200, h, b)
	}
	return reply(404, nil, nil)
}
