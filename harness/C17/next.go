//zz:pkg internal/reghttp
package reghttp

import (
	"context"
	"encoding/base64"
	"errors"
	"fmt"
	"io"
	"log/slog"
	"net/http"
	"strconv"
	"strings"
	"time"

	"github.com/regclient/regclient/config"
	"github.com/regclient/regclient/internal/auth"
	"github.com/regclient/regclient/internal/pqueue"
	"github.com/regclient/regclient/internal/reqmeta"
	"github.com/regclient/regclient/types/errs"
)

// zzFaultNet is the model network behind the real request loop: every
// transport call is answered, by symbolic choice, from the fault alphabet
// {200, 401 with a Basic challenge (fixed or rotating realm), 404, 429, 500,
// 502, connection error}. It records destination host, scheme, Authorization
// and the clock for every call.
type zzFaultNet struct {
	calls         []zzCall
	budget        int // symbolic replies are drawn for the first `budget` calls, 200 afterwards
	realmN        int
	rotate        bool
	cdnChallenged bool
	cutN          int
	lastBad       map[string]time.Time
	badN          map[string]int
}

type zzCall struct {
	host, scheme, auth, method string
	at                         time.Time
	status                     int
	retryAfter                 bool
}

var errZZConn = errors.New("zz: connection reset")

type zzCutBody struct {
	data string
	off  int
}

func (b *zzCutBody) Read(p []byte) (int, error) {
	if b.off >= len(b.data) {
		return 0, io.ErrUnexpectedEOF
	}
	n := copy(p, b.data[b.off:])
	b.off += n
	return n, nil
}

func (n *zzFaultNet) RoundTrip(req *http.Request) (*http.Response, error) {
	c := zzCall{host: req.URL.Host, scheme: req.URL.Scheme, auth: req.Header.Get("Authorization"), method: req.Method, at: time.Now()}
	status := 200
	if req.URL.Host == zzCDN {
		// the redirect target: serves the content or asks for credentials itself
		if zzBool("cdn_challenges") {
			status = 401
			n.cdnChallenged = true
		}
	} else if len(n.calls) < n.budget {
		alphabet := []int{200, 401, 404, 429, 500, 502, -1, 1429, 2200} // 2200: a 200 whose body breaks off after one byte
		if zzNextForC11 {
			alphabet = []int{200, 401, 404, 500, -1, 307} // confinement: plus a redirect to a host that is not configured
		}
		status = alphabet[zzInt("reply", 0, len(alphabet)-1)]
	}
	cut := false
	if status == 2200 {
		status, cut = 200, true
	}
	retryAfter := false
	if status == 1429 { // 429 that asks for a one second pause
		status, retryAfter = 429, true
	}
	c.status = status
	c.retryAfter = retryAfter
	n.calls = append(n.calls, c)
	if status == -1 {
		return nil, errZZConn
	}
	h := http.Header{}
	if status == 401 {
		realm := "r"
		if n.rotate {
			n.realmN++
			realm = "r" + strconv.Itoa(n.realmN)
		}
		h.Set("WWW-Authenticate", `Basic realm="`+realm+`"`)
	}
	if retryAfter {
		h.Set("Retry-After", "1")
	}
	if status == 307 {
		h.Set("Location", "https://"+zzCDN+"/blob")
	}
	body := ""
	if status == 200 {
		body = "ok"
		h.Set("Content-Length", "2")
		if rg := req.Header.Get("Range"); rg != "" {
			// a resume: serve the rest of the content
			zzReach("range_resume_requested")
			status = 206
			body = "k"
			h.Set("Content-Length", "1")
			h.Set("Content-Range", "bytes 1-1/2")
		} else if cut {
			body = "o" // the connection drops before the second byte
			n.cutN++
		}
	}
	var rdr io.Reader = strings.NewReader(body)
	if cut && status == 200 {
		rdr = &zzCutBody{data: body} // as net/http: a body shorter than its Content-Length ends in io.ErrUnexpectedEOF
	}
	return &http.Response{StatusCode: status, Status: strconv.Itoa(status), Header: h, Body: io.NopCloser(rdr), Request: req}, nil
}

const zzCDN = "cdn.example" // a redirect target that is not a configured host

const (
	zzUp, zzMirror = "up.example", "mirror.example"
	zzUpUser       = "up-user"
	zzUpPass       = "up-SECRET"
)

const (
	zzMirUser = "mir-user"
	zzMirPass = "mir-SECRET"
)

var zzMirrorLogin bool // the mirror has its own login

const zzNextForC11 = false

func zzMkClient(net *zzFaultNet, retry int, mirrorTLS config.TLSConf, withMirror bool) *Client {
	c := NewClient(WithRetryLimit(retry), WithDelay(2*time.Millisecond, 8*time.Millisecond))
	lg := slog.New(slog.NewTextHandler(io.Discard, nil))
	mk := func(name string, cfg *config.Host) {
		cfg.Name, cfg.Hostname = name, name
		// one concurrency slot per host: a slot that is not given back blocks the host for good
		c.host[name] = &clientHost{config: cfg, httpClient: &http.Client{Transport: &wrapTransport{c: c, orig: net}}, auth: map[string]*auth.Auth{}, slog: lg,
			throttle: pqueue.New(pqueue.Opts[reqmeta.Data]{Max: 1})}
	}
	up := &config.Host{TLS: config.TLSEnabled, User: zzUpUser, Pass: zzUpPass, Priority: 1}
	if withMirror {
		up.Mirrors = []string{zzMirror}
		mh := &config.Host{TLS: mirrorTLS, Priority: 5}
		if zzMirrorLogin {
			mh.User, mh.Pass = zzMirUser, zzMirPass
		}
		mk(zzMirror, mh)
	}
	mk(zzUp, up)
	return c
}

// One logical request through the real Do/next loop against the fault
// alphabet: attempts are bounded by the retry limit (+1), fewer transient
// faults than the limit are absorbed, a state-changing request never reaches
// the mirror, the upstream's credentials never reach the mirror, and a host
// configured for TLS is never addressed over http.
func ZZC17_next() {
	// the file serves two properties: the copy under harness/C11 draws the inputs that matter for
	// credential confinement (caller headers, a mirror login), this one those for termination and back-off
	const forC11 = zzNextForC11
	virtual := !forC11 && zzBool("virtual_time")
	if virtual {
		zzClockVirtual()
	}
	R := zzInt("retry_limit", 1, 2+zzTier())
	net := &zzFaultNet{budget: zzInt("fault_budget", 0, 3), rotate: zzBool("rotating_realm")}
	withMirror := zzBool("with_mirror")
	mirrorTLS := config.TLSEnabled
	if withMirror && zzBool("mirror_plain_http") {
		mirrorTLS = config.TLSDisabled
	}
	zzMirrorLogin = forC11 && withMirror && zzBool("mirror_has_login")
	c := zzMkClient(net, R, mirrorTLS, withMirror)
	method := "GET"
	noMirrors := false
	if zzBool("mutating") {
		method, noMirrors = "PUT", true
	}
	// requests that ask for errors to be ignored (anonymous mount, tag delete probe, referrers probe) set no back-off
	ignoreErr := !forC11 && zzBool("ignore_err")
	// caller headers (manifest and tag requests carry an Accept list, blob requests none)
	var hdrs http.Header
	if forC11 && zzBool("caller_headers") {
		hdrs = http.Header{"Accept": {"application/vnd.oci.image.manifest.v1+json"}}
	}
	req := &Req{Host: zzUp, Method: method, Repository: "repo", Path: "manifests/tag", NoMirrors: noMirrors, IgnoreErr: ignoreErr, Headers: hdrs}
	if method == "PUT" && !zzNextForC11 && zzBool("streamed_body") {
		// a body that can be produced once only (a pipe): asking again is a not-retryable error
		produced := false
		req.BodyLen = 2
		req.BodyFunc = func() (io.ReadCloser, error) {
			if produced {
				return nil, fmt.Errorf("body cannot be produced again%.0w", errs.ErrNotRetryable)
			}
			produced = true
			return io.NopCloser(strings.NewReader("xy")), nil
		}
	}
	resp, err := c.Do(context.Background(), req)
	zzReach("do_returned")
	// (i) bounded attempts
	attempts := 0
	for _, cl := range net.calls {
		if cl.host != zzCDN { // a redirect hop is part of the attempt that was redirected
			attempts++
		}
	}
	zzAssert(attempts <= R+2, "attempts_bounded_by_retry_limit")
	// (ii) recovery: the loop only gives up for a reason
	faults := 0
	for _, cl := range net.calls {
		if cl.status != 200 && cl.status != 206 {
			faults++
		}
	}
	if err == nil {
		zzReach("do_succeeded")
		zzAssert(resp != nil && resp.HTTPResponse().StatusCode == 200, "success_means_a_2xx_reply")
		b, rerr := io.ReadAll(resp)
		if rerr != nil {
			// the reply broke off: a failed read is in order only when the faults have reached the limit
			// or the request (a streamed body) cannot be sent again
			zzReach("read_of_a_cut_reply_failed")
			faults = 0 // recount: the resume made further calls
			definite := false
			for _, cl := range net.calls {
				if cl.status != 200 && cl.status != 206 {
					faults++
				}
				if cl.status == 404 || cl.status == 401 {
					definite = true // not a transient fault: the host has answered, it is not asked again
				}
			}
			// (a request that asks for errors to be ignored gives up on a host at its first fault, by design)
			zzAssert(net.cutN > 0 && (faults+net.cutN >= R || req.BodyFunc != nil || ignoreErr || definite), "fewer_faults_than_the_limit_are_absorbed")
		} else {
			zzAssert(string(b) == "ok", "body_of_the_good_reply_is_delivered")
		}
		_ = resp.Close()
	} else {
		zzReach("do_failed")
		zzAssert(faults > 0, "no_failure_without_a_fault")
		if errors.Is(err, errs.ErrRetryLimitExceeded) {
			zzReach("retry_limit_reached")
		}
	}
	// every concurrency slot the request took has been given back
	for _, hn := range []string{zzUp, zzMirror} {
		if h, ok := c.host[hn]; ok {
			done, terr := h.throttle.TryAcquire(context.Background(), reqmeta.Data{})
			zzAssert(terr == nil && done != nil, "C17_request_gives_its_slot_back")
			if done != nil {
				done()
			}
		}
	}
	// (iii) back-off: after a back-off class failure the same host is not asked again before the delay has passed.
	// Judged under virtual time only: the delay is counted from the instant the previous attempt was due, so
	// with an arbitrary clock a late previous attempt legitimately shortens the observable gap.
	for i, cl := range net.calls {
		if !virtual {
			break
		}
		if ignoreErr && net.cutN > 0 {
			break // requests that ask for errors to be ignored record no back-off by design; a resume lists the hosts afresh
		}
		for j := i - 1; j >= 0; j-- {
			if net.calls[j].host != cl.host {
				continue
			}
			switch net.calls[j].status {
			case 429, 500, 502, -1:
				zzReach("request_after_backoff_failure")
				if net.calls[j].retryAfter && !ignoreErr {
					zzReach("request_after_retry_after")
					zzAssert(cl.at.Sub(net.calls[j].at) >= time.Second, "server_requested_delay_honoured")
				} else {
					zzAssert(cl.at.Sub(net.calls[j].at) >= 4*time.Millisecond, "backoff_delay_honoured")
				}
			}
			break
		}
	}
	secret := base64.StdEncoding.EncodeToString([]byte(zzUpUser + ":" + zzUpPass))
	mirSecret := base64.StdEncoding.EncodeToString([]byte(zzMirUser + ":" + zzMirPass))
	for _, cl := range net.calls {
		if cl.host == zzMirror {
			zzReach("mirror_used")
			zzAssert(method == "GET", "C12_state_changing_request_skips_mirrors")
			zzAssert(!strings.Contains(cl.auth, secret), "C11_upstream_credentials_not_sent_to_a_mirror")
			if strings.Contains(cl.auth, mirSecret) {
				zzReach("mirror_credentials_sent_to_the_mirror")
			}
			if mirrorTLS == config.TLSDisabled {
				zzAssert(cl.scheme == "http", "mirror_scheme_follows_its_tls_setting")
			} else {
				zzAssert(cl.scheme == "https", "C11_tls_host_addressed_over_https")
			}
		} else if cl.host == zzCDN {
			zzReach("redirect_followed")
			leaked := strings.Contains(cl.auth, secret) || strings.Contains(cl.auth, mirSecret)
			if net.cdnChallenged {
				// (known finding: a foreign host that challenges is answered with the registry's credentials)
				zzAssert(!leaked, "C11_credentials_not_sent_to_a_redirect_target_that_challenged")
			} else {
				zzAssert(!leaked, "C11_credentials_not_sent_to_a_redirect_target")
			}
		} else {
			zzAssert(cl.host == zzUp, "requests_go_only_to_configured_hosts")
			zzAssert(!strings.Contains(cl.auth, mirSecret), "C11_mirror_credentials_not_sent_to_the_upstream")
			zzAssert(cl.scheme == "https", "C11_tls_host_addressed_over_https")
			if strings.Contains(cl.auth, secret) {
				zzReach("credentials_sent_to_own_host")
			}
		}
	}
}
