//zz:pkg internal/pqueue
package pqueue

import (
	"context"
	"time"
)

func zzMkSmall(tag int) *zzState {
	max := zzInt("m_max", 1, 2)
	na := zzInt("m_na", 0, 2)
	zzAssume(na <= max)
	s := &zzState{}
	s.q = &Queue[int]{max: max}
	for i := 0; i < na; i++ {
		v := tag + i
		s.q.active = append(s.q.active, &v)
		s.holders = append(s.holders, &v)
	}
	return s
}

func zzHeld(q *Queue[int], v int) int {
	q.mu.Lock()
	defer q.mu.Unlock()
	return zzCountVal(q.active, v) + zzCountVal(q.queued, v)
}

// AcquireMulti over an arbitrary arrangement of two queues (with nil and
// duplicate entries), against an environment that releases holders and
// finally cancels: success means exactly one slot in every distinct queue,
// failure means no slot anywhere, and the invariant of both queues survives.
func ZZC17_multi() {
	s1, s2 := zzMkSmall(100), zzMkSmall(200)
	ctx, cancel := context.WithCancel(context.Background())
	defer cancel()
	var list []*Queue[int]
	use1, use2 := false, false
	n := zzInt("list_len", 0, 3)
	for i := 0; i < n; i++ {
		switch zzInt("list_item", 0, 2) {
		case 0:
			list = append(list, nil)
		case 1:
			list = append(list, s1.q)
			use1 = true
		case 2:
			list = append(list, s2.q)
			use2 = true
		}
	}
	rel1 := make([]bool, len(s1.holders))
	rel2 := make([]bool, len(s2.holders))
	envDone := make(chan struct{})
	N := 2 + zzTier()
	go func() {
		defer close(envDone)
		if !zzSymbolic() {
			time.Sleep(30 * time.Millisecond)
		}
		for k := 0; k < N; k++ {
			switch zzInt("env", 0, 5) {
			case 0:
				k = N
			case 4:
				s1.q.TryAcquire(context.Background(), 300+k) // another user takes a slot and keeps it
			case 5:
				s2.q.TryAcquire(context.Background(), 400+k)
			case 1:
				if len(s1.holders) > 0 {
					i := zzInt("rel_i", 0, len(s1.holders)-1)
					if !rel1[i] {
						rel1[i] = true
						s1.q.release(s1.holders[i])
					}
				}
			case 2:
				if len(s2.holders) > 0 {
					i := zzInt("rel_i", 0, len(s2.holders)-1)
					if !rel2[i] {
						rel2[i] = true
						s2.q.release(s2.holders[i])
					}
				}
			case 3:
				cancel()
			}
		}
		cancel()
	}()
	nctx, done, err := AcquireMulti(ctx, 77, list...)
	<-envDone
	zzReach("multi_returned")
	zzCheckInv(s1, "m1")
	zzCheckInv(s2, "m2")
	if err == nil {
		zzReach("multi_acquired")
		zzAssert(done != nil, "multi_done_set")
		if use1 {
			zzAssert(zzHeld(s1.q, 77) == 1, "multi_holds_q1_once")
		} else {
			zzAssert(zzHeld(s1.q, 77) == 0, "multi_leaves_unlisted_q1")
		}
		if use2 {
			zzAssert(zzHeld(s2.q, 77) == 1, "multi_holds_q2_once")
		} else {
			zzAssert(zzHeld(s2.q, 77) == 0, "multi_leaves_unlisted_q2")
		}
		if use1 {
			// the returned context lets nested acquires through without a second slot
			f, e2 := s1.q.Acquire(nctx, 78)
			zzAssert(e2 == nil && f != nil, "multi_nested_acquire_passes")
			zzAssert(zzHeld(s1.q, 78) == 0, "multi_nested_takes_no_slot")
		}
		done()
		zzAssert(zzHeld(s1.q, 77) == 0 && zzHeld(s2.q, 77) == 0, "multi_release_returns_all")
		zzCheckInv(s1, "m1_rel")
		zzCheckInv(s2, "m2_rel")
	} else {
		zzReach("multi_failed")
		zzAssert(done == nil, "multi_err_no_done")
		zzAssert(zzHeld(s1.q, 77) == 0 && zzHeld(s2.q, 77) == 0, "multi_error_holds_nothing")
	}
}

// Two callers acquire the same two single-slot queues in opposite orders,
// with up to two forced pre-emptions at unlocks: both finish (no deadlock),
// and at no point do both hold the same queue.
func ZZC17_multi_opposed() {
	zzPreempt(2 + zzTier())
	q1 := New(Opts[int]{Max: 1})
	q2 := New(Opts[int]{Max: 1})
	ctx := context.Background()
	fin := make(chan int, 2)
	run := func(id int, a, b *Queue[int]) {
		_, done, err := AcquireMulti(ctx, id, a, b)
		if err == nil {
			zzAssert(zzHeld(q1, id) == 1 && zzHeld(q2, id) == 1, "opposed_holds_both")
			q1.mu.Lock()
			n1 := len(q1.active)
			q1.mu.Unlock()
			q2.mu.Lock()
			n2 := len(q2.active)
			q2.mu.Unlock()
			zzAssert(n1 <= 1 && n2 <= 1, "opposed_limit")
			done()
		}
		fin <- id
	}
	go run(1, q1, q2)
	go run(2, q2, q1)
	<-fin
	<-fin
	zzReach("both_finished")
	zzAssert(zzHeld(q1, 1)+zzHeld(q1, 2)+zzHeld(q2, 1)+zzHeld(q2, 2) == 0, "opposed_all_released")
}
