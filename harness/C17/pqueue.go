//zz:pkg internal/pqueue
package pqueue

import (
	"context"
	"time"
)

// ---- arbitrary valid pre-state -------------------------------------------

type zzState struct {
	q       *Queue[int]
	holders []*int           // entries in active at the start
	waiters []*int           // entries in queued at the start
	chans   []*chan struct{} // their wake-up channels
}

// zzMkQueue builds an arbitrary queue state satisfying the invariant I:
// |active| <= max, |queued| == |wait|, |queued| > 0 => |active| == max,
// all wait channels open.
func zzMkQueue() *zzState {
	max := zzInt("max", 1, 3)
	na := zzInt("na", 0, 3)
	nq := zzInt("nq", 0, 2+zzTier())
	zzAssume(na <= max)
	zzAssume(nq == 0 || na == max)
	s := &zzState{}
	s.q = &Queue[int]{max: max}
	if zzBool("has_next") {
		s.q.next = func(queued, active []*int) int { return zzInt("next", -1, 3) }
	}
	for i := 0; i < na; i++ {
		v := 100 + i
		s.q.active = append(s.q.active, &v)
		s.holders = append(s.holders, &v)
	}
	for i := 0; i < nq; i++ {
		v := 200 + i
		w := make(chan struct{}, 1)
		s.q.queued = append(s.q.queued, &v)
		s.q.wait = append(s.q.wait, &w)
		s.waiters = append(s.waiters, &v)
		s.chans = append(s.chans, &w)
	}
	return s
}

func zzIsClosed(w *chan struct{}) bool {
	select {
	case <-*w:
		return true
	default:
		return false
	}
}

func zzIn(l []*int, p *int) int {
	n := 0
	for _, x := range l {
		if x == p {
			n++
		}
	}
	return n
}

func zzCountVal(l []*int, v int) int {
	n := 0
	for _, x := range l {
		if *x == v {
			n++
		}
	}
	return n
}

// zzCheckInv asserts the invariant and the guarantee towards entries that
// were waiting at the start: none is lost, one that was moved to active has
// its wake-up channel closed, one still queued has it open.
func zzCheckInv(s *zzState, pfx string) {
	q := s.q
	q.mu.Lock()
	defer q.mu.Unlock()
	zzAssert(len(q.active) <= q.max, pfx+"_limit")
	zzAssert(len(q.queued) == len(q.wait), pfx+"_wait_parallel")
	zzAssert(len(q.queued) == 0 || len(q.active) == q.max, pfx+"_nobody_waits_while_slot_free")
	for i, w := range s.waiters {
		inQ := zzIn(q.queued, w)
		inA := zzIn(q.active, w)
		zzAssert(inQ+inA == 1, pfx+"_waiter_not_lost")
		if inA == 1 {
			zzAssert(zzIsClosed(s.chans[i]), pfx+"_moved_waiter_was_woken")
		} else if inQ == 1 {
			zzAssert(!zzIsClosed(s.chans[i]), pfx+"_queued_waiter_not_woken")
			// its channel is still the one registered for it
			for j := range q.queued {
				if q.queued[j] == w {
					zzAssert(q.wait[j] == s.chans[i], pfx+"_wait_slot_matches_entry")
				}
			}
		}
	}
	for i := range q.active {
		for j := i + 1; j < len(q.active); j++ {
			zzAssert(q.active[i] != q.active[j], pfx+"_active_distinct")
		}
	}
}

// ---- one release from an arbitrary state ---------------------------------

func ZZC17_release() {
	s := zzMkQueue()
	q := s.q
	var prev *int
	spurious := zzBool("spurious")
	if spurious || len(s.holders) == 0 {
		v := 999
		prev = &v
	} else {
		prev = s.holders[zzInt("which", 0, len(s.holders)-1)]
	}
	nq0, na0 := len(q.queued), len(q.active)
	wasActive := zzIn(q.active, prev) == 1
	q.release(prev)
	zzReach("released")
	zzCheckInv(s, "rel")
	zzAssert(zzIn(q.active, prev) == 0, "rel_prev_removed")
	if wasActive && nq0 > 0 {
		zzReach("handed_over")
		zzAssert(len(q.queued) == nq0-1 && len(q.active) == na0, "rel_exactly_one_handed_over")
	} else if wasActive {
		zzAssert(len(q.active) == na0-1 && len(q.queued) == 0, "rel_slot_freed")
	} else {
		zzAssert(len(q.active) == na0 && len(q.queued) == nq0, "rel_spurious_is_noop")
	}
	for _, h := range s.holders {
		if h != prev {
			zzAssert(zzIn(q.active, h) == 1, "rel_other_holders_keep_slot")
		}
	}
}

// ---- TryAcquire from an arbitrary state -----------------------------------

func ZZC17_try() {
	s := zzMkQueue()
	q := s.q
	na0, nq0 := len(q.active), len(q.queued)
	fn, err := q.TryAcquire(context.Background(), 77)
	zzAssert(err == nil, "try_no_error")
	zzCheckInv(s, "try")
	if fn != nil {
		zzReach("try_got")
		zzAssert(na0 < q.max && nq0 == 0, "try_only_when_free")
		zzAssert(zzCountVal(q.active, 77) == 1 && len(q.active) == na0+1, "try_holds_one_slot")
		fn()
		zzAssert(zzCountVal(q.active, 77) == 0 && len(q.active) == na0, "try_release_returns_slot")
		zzCheckInv(s, "try_rel")
	} else {
		zzReach("try_refused")
		zzAssert(na0+nq0 >= q.max, "try_refused_only_when_full")
		zzAssert(len(q.active) == na0 && len(q.queued) == nq0, "try_refused_is_noop")
	}
}

// ---- Acquire with a concurrent environment --------------------------------

// The caller runs Acquire while an environment goroutine performs up to N
// operations of other users of the same queue (real code): a holder
// releases, another caller try-acquires, the caller's context is cancelled.
// The environment always cancels at the end so that Acquire returns.
func ZZC17_acquire() {
	s := zzMkQueue()
	q := s.q
	ctx, cancel := context.WithCancel(context.Background())
	defer cancel()
	N := 2 + zzTier()
	released := make([]bool, len(s.holders))
	var others []func()
	envDone := make(chan struct{})
	go func() {
		defer close(envDone)
		if !zzSymbolic() {
			time.Sleep(30 * time.Millisecond) // natively: let the caller block first
		}
		for k := 0; k < N; k++ {
			switch zzInt("env", 0, 3) {
			case 0:
				k = N
			case 1:
				if len(s.holders) > 0 {
					i := zzInt("rel_i", 0, len(s.holders)-1)
					if !released[i] {
						released[i] = true
						q.release(s.holders[i])
					}
				}
			case 2:
				fn, _ := q.TryAcquire(context.Background(), 300+k)
				if fn != nil {
					others = append(others, fn)
				}
			case 3:
				cancel()
			}
		}
		cancel()
	}()
	fn, err := q.Acquire(ctx, 77)
	<-envDone
	zzReach("acquire_returned")
	zzCheckInv(s, "acq")
	q.mu.Lock()
	inA, inQ := zzCountVal(q.active, 77), zzCountVal(q.queued, 77)
	q.mu.Unlock()
	if err == nil {
		zzReach("acquired")
		zzAssert(fn != nil, "acq_fn_set")
		zzAssert(inA == 1 && inQ == 0, "acq_holds_exactly_one_slot")
		fn()
		q.mu.Lock()
		inA = zzCountVal(q.active, 77)
		q.mu.Unlock()
		zzAssert(inA == 0, "acq_release_returns_slot")
		zzCheckInv(s, "acq_rel")
	} else {
		zzReach("gave_up")
		zzAssert(fn == nil, "acq_err_no_fn")
		zzAssert(inA == 0 && inQ == 0, "acq_cancelled_keeps_nothing")
	}
	for i, h := range s.holders {
		if !released[i] {
			q.mu.Lock()
			n := zzIn(q.active, h)
			q.mu.Unlock()
			zzAssert(n == 1, "acq_other_holders_keep_slot")
		}
	}
}
