// Package zzlua models the part of github.com/yuin/gopher-lua that regbot's
// sandbox bindings use: the argument/stack API of *LState and the value
// types. It replaces gopher-lua through an import substitution in package
// cmd/regbot/sandbox (symbolic run and native replay alike). The Lua VM
// itself (DoString) is not modelled: harnesses call the bindings directly.
package zzlua

import "fmt"

type LValueType int

const (
	LTNil LValueType = iota
	LTBool
	LTNumber
	LTString
	LTFunction
	LTUserData
	LTThread
	LTTable
	LTChannel
)

type LValue interface {
	String() string
	Type() LValueType
}

type LNilType struct{}

func (LNilType) String() string   { return "nil" }
func (LNilType) Type() LValueType { return LTNil }

var LNil = LValue(LNilType{})

type LBool bool

func (b LBool) String() string {
	if b {
		return "true"
	}
	return "false"
}
func (LBool) Type() LValueType { return LTBool }

var LTrue, LFalse = LBool(true), LBool(false)

type LNumber float64

func (n LNumber) String() string { return fmt.Sprint(float64(n)) }
func (LNumber) Type() LValueType { return LTNumber }

type LString string

func (s LString) String() string { return string(s) }
func (LString) Type() LValueType { return LTString }

type LGFunction func(*LState) int

type LFunction struct {
	GFunction LGFunction
}

func (*LFunction) String() string   { return "function" }
func (*LFunction) Type() LValueType { return LTFunction }

type LTable struct {
	Metatable LValue
	keys      []string
	vals      []LValue
	arr       []LValue
}

func (*LTable) String() string   { return "table" }
func (*LTable) Type() LValueType { return LTTable }

func (t *LTable) RawGetString(k string) LValue {
	for i, x := range t.keys {
		if x == k {
			return t.vals[i]
		}
	}
	return LNil
}

func (t *LTable) RawSetString(k string, v LValue) {
	for i, x := range t.keys {
		if x == k {
			t.vals[i] = v
			return
		}
	}
	t.keys = append(t.keys, k)
	t.vals = append(t.vals, v)
}

func (t *LTable) RawSet(k, v LValue) {
	if s, ok := k.(LString); ok {
		t.RawSetString(string(s), v)
		return
	}
	t.arr = append(t.arr, v)
}

func (t *LTable) RawGet(k LValue) LValue {
	if s, ok := k.(LString); ok {
		return t.RawGetString(string(s))
	}
	return LNil
}

func (t *LTable) Append(v LValue) { t.arr = append(t.arr, v) }
func (t *LTable) Len() int        { return len(t.arr) }
func (t *LTable) ForEach(f func(LValue, LValue)) {
	for i, v := range t.arr {
		f(LNumber(i+1), v)
	}
	for i, k := range t.keys {
		f(LString(k), t.vals[i])
	}
}

type LUserData struct {
	Value     interface{}
	Env       *LTable
	Metatable LValue
}

func (*LUserData) String() string   { return "userdata" }
func (*LUserData) Type() LValueType { return LTUserData }

// ApiError is what RaiseError/ArgError throw (by panic, like gopher-lua).
type ApiError struct {
	Msg string
}

func (e *ApiError) Error() string { return e.Msg }

type LState struct {
	stack   []LValue
	globals map[string]LValue
	types   map[string]*LTable
	Closed  bool
}

func NewState() *LState {
	return &LState{globals: map[string]LValue{}, types: map[string]*LTable{}}
}

func (ls *LState) Close() { ls.Closed = true }

// DoString: the VM is not modelled.
func (ls *LState) DoString(src string) error { return nil }

// ---- stack ----

func (ls *LState) GetTop() int { return len(ls.stack) }

func (ls *LState) SetTop(n int) {
	for len(ls.stack) < n {
		ls.stack = append(ls.stack, LNil)
	}
	ls.stack = ls.stack[:n]
}

func (ls *LState) Get(i int) LValue {
	if i >= 1 && i <= len(ls.stack) {
		return ls.stack[i-1]
	}
	if i < 0 && -i <= len(ls.stack) {
		return ls.stack[len(ls.stack)+i]
	}
	return LNil
}

func (ls *LState) Push(v LValue) { ls.stack = append(ls.stack, v) }

func (ls *LState) Pop(n int) {
	if n > len(ls.stack) {
		n = len(ls.stack)
	}
	ls.stack = ls.stack[:len(ls.stack)-n]
}

// ---- errors ----

func (ls *LState) RaiseError(format string, args ...interface{}) {
	panic(&ApiError{Msg: "lua error: " + format})
}

func (ls *LState) ArgError(n int, msg string) {
	panic(&ApiError{Msg: "bad argument: " + msg})
}

func (ls *LState) TypeError(n int, typ LValueType) {
	panic(&ApiError{Msg: "type error"})
}

// ---- checked accessors ----

func (ls *LState) CheckString(n int) string {
	switch v := ls.Get(n).(type) {
	case LString:
		return string(v)
	case LNumber:
		return v.String()
	}
	ls.TypeError(n, LTString)
	return ""
}

func (ls *LState) OptString(n int, d string) string {
	if ls.Get(n).Type() == LTNil {
		return d
	}
	return ls.CheckString(n)
}

func (ls *LState) CheckInt(n int) int {
	if v, ok := ls.Get(n).(LNumber); ok {
		return int(v)
	}
	ls.TypeError(n, LTNumber)
	return 0
}

func (ls *LState) CheckNumber(n int) LNumber {
	if v, ok := ls.Get(n).(LNumber); ok {
		return v
	}
	ls.TypeError(n, LTNumber)
	return 0
}

func (ls *LState) CheckBool(n int) bool {
	if v, ok := ls.Get(n).(LBool); ok {
		return bool(v)
	}
	ls.TypeError(n, LTBool)
	return false
}

func (ls *LState) CheckTable(n int) *LTable {
	if v, ok := ls.Get(n).(*LTable); ok {
		return v
	}
	ls.TypeError(n, LTTable)
	return nil
}

func (ls *LState) CheckUserData(n int) *LUserData {
	if v, ok := ls.Get(n).(*LUserData); ok {
		return v
	}
	ls.TypeError(n, LTUserData)
	return nil
}

// ---- construction ----

func (ls *LState) NewTable() *LTable                    { return &LTable{} }
func (ls *LState) NewUserData() *LUserData              { return &LUserData{} }
func (ls *LState) NewFunction(fn LGFunction) *LFunction { return &LFunction{GFunction: fn} }
func (ls *LState) SetGlobal(name string, v LValue)      { ls.globals[name] = v }
func (ls *LState) GetGlobal(name string) LValue {
	if v, ok := ls.globals[name]; ok {
		return v
	}
	return LNil
}

func (ls *LState) NewTypeMetatable(name string) *LTable {
	if t, ok := ls.types[name]; ok {
		return t
	}
	t := &LTable{}
	ls.types[name] = t
	return t
}

func (ls *LState) GetTypeMetatable(name string) LValue {
	if t, ok := ls.types[name]; ok {
		return t
	}
	return LNil
}

func (ls *LState) SetField(obj LValue, key string, v LValue) {
	if t, ok := obj.(*LTable); ok {
		t.RawSetString(key, v)
	}
}

func (ls *LState) GetField(obj LValue, key string) LValue {
	if t, ok := obj.(*LTable); ok {
		return t.RawGetString(key)
	}
	return LNil
}

func (ls *LState) SetFuncs(tb *LTable, funcs map[string]LGFunction, upvalues ...LValue) *LTable {
	for k, f := range funcs {
		tb.RawSetString(k, ls.NewFunction(f))
	}
	return tb
}

func (ls *LState) SetMetatable(obj LValue, mt LValue) {
	switch o := obj.(type) {
	case *LTable:
		o.Metatable = mt
	case *LUserData:
		o.Metatable = mt
	}
}

func (ls *LState) GetMetatable(obj LValue) LValue {
	switch o := obj.(type) {
	case *LTable:
		if o.Metatable != nil {
			return o.Metatable
		}
	case *LUserData:
		if o.Metatable != nil {
			return o.Metatable
		}
	}
	return LNil
}

func (ls *LState) GetMetaField(obj LValue, event string) LValue {
	if mt, ok := ls.GetMetatable(obj).(*LTable); ok {
		return mt.RawGetString(event)
	}
	return LNil
}
