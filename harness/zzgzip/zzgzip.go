// Package zzgzip models compress/gzip as a marker format: the real gzip magic
// (1f 8b 08: magic and deflate method) followed by the uncompressed bytes, so that magic-number detection
// in the code under test behaves as usual and "compressed" data differs from
// its content. Replaces compress/gzip through an import substitution.
package zzgzip

import (
	"errors"
	"io"
)

const (
	NoCompression      = 0
	BestSpeed          = 1
	BestCompression    = 9
	DefaultCompression = -1
	HuffmanOnly        = -2
)

var Magic = []byte{0x1f, 0x8b, 0x08}

var ErrHeader = errors.New("gzip: invalid header")

type Header struct {
	Name string
}

type Writer struct {
	Header
	w     io.Writer
	wrote bool
}

func NewWriter(w io.Writer) *Writer { return &Writer{w: w} }

func NewWriterLevel(w io.Writer, level int) (*Writer, error) { return &Writer{w: w}, nil }

func (z *Writer) head() error {
	if z.wrote {
		return nil
	}
	z.wrote = true
	_, err := z.w.Write(Magic)
	return err
}

func (z *Writer) Write(p []byte) (int, error) {
	if err := z.head(); err != nil {
		return 0, err
	}
	return z.w.Write(p)
}

func (z *Writer) Flush() error { return z.head() }
func (z *Writer) Close() error { return z.head() }
func (z *Writer) Reset(w io.Writer) {
	z.w, z.wrote = w, false
}

type Reader struct {
	Header
	r io.Reader
}

func NewReader(r io.Reader) (*Reader, error) {
	var m [3]byte
	if _, err := io.ReadFull(r, m[:]); err != nil {
		return nil, err
	}
	if m[0] != Magic[0] || m[1] != Magic[1] || m[2] != Magic[2] {
		return nil, ErrHeader
	}
	return &Reader{r: r}, nil
}

func (z *Reader) Read(p []byte) (int, error) { return z.r.Read(p) }
func (z *Reader) Close() error               { return nil }
