//zz:pkg scheme/ocidir
//zz:subst scheme/ocidir os
package ocidir

import (
	"context"
	"encoding/json"
	"path"

	"github.com/opencontainers/go-digest"

	zzos "github.com/regclient/regclient/internal/zzos"
	"github.com/regclient/regclient/types/descriptor"
	"github.com/regclient/regclient/types/mediatype"
	v1 "github.com/regclient/regclient/types/oci/v1"
	"github.com/regclient/regclient/types/ref"
)

const zzG = "/lay"

func zzBlobPath(d digest.Digest) string {
	return path.Join(zzG, "blobs", d.Algorithm().String(), d.Encoded())
}

func zzPutBlob(b []byte) descriptor.Descriptor {
	d := digest.FromBytes(b)
	zzos.Cur.Put(zzBlobPath(d), b)
	return descriptor.Descriptor{Digest: d, Size: int64(len(b))}
}

type zzGraph struct {
	pool    []descriptor.Descriptor // leaf blobs (configs, layers, strays)
	present map[digest.Digest]bool
}

// zzImage writes an image manifest naming a symbolic choice of pool blobs
// (sharing allowed) and returns its descriptor.
func (g *zzGraph) zzImage(docker bool) descriptor.Descriptor {
	cfg := g.pool[0]
	cfg.MediaType = mediatype.OCI1ImageConfig
	nl := zzInt("n_layers", 0, 1)
	layers := []descriptor.Descriptor{}
	for i := 0; i < nl; i++ {
		l := g.pool[zzInt("layer", 0, len(g.pool)-1)]
		l.MediaType = mediatype.OCI1Layer
		layers = append(layers, l)
	}
	mt := mediatype.OCI1Manifest
	if docker {
		mt = mediatype.Docker2Manifest
	}
	m := v1.Manifest{Versioned: v1.ManifestSchemaVersion, MediaType: mt, Config: cfg, Layers: layers}
	b, _ := json.Marshal(m)
	d := descriptor.Descriptor{MediaType: mt, Digest: digest.FromBytes(b), Size: int64(len(b))}
	if zzBool("manifest_file_present") { // sparse copies may lack a child
		zzos.Cur.Put(zzBlobPath(d.Digest), b)
	}
	return d
}

// zzArtifactM writes a config-less OCI artifact manifest naming pool blobs.
func (g *zzGraph) zzArtifactM() descriptor.Descriptor {
	nb := zzInt("n_blobs", 1, 2)
	m := v1.ArtifactManifest{MediaType: mediatype.OCI1Artifact, ArtifactType: "application/example"}
	for i := 0; i < nb; i++ {
		b := g.pool[zzInt("art_blob", 0, len(g.pool)-1)]
		b.MediaType = "application/octet-stream"
		m.Blobs = append(m.Blobs, b)
	}
	b, _ := json.Marshal(m)
	d := descriptor.Descriptor{MediaType: mediatype.OCI1Artifact, Digest: digest.FromBytes(b), Size: int64(len(b))}
	zzos.Cur.Put(zzBlobPath(d.Digest), b)
	return d
}

func (g *zzGraph) zzNested() descriptor.Descriptor {
	n := zzInt("n_children", 1, 2)
	idx := v1.Index{Versioned: v1.IndexSchemaVersion, MediaType: mediatype.OCI1ManifestList, Manifests: []descriptor.Descriptor{}}
	for i := 0; i < n; i++ {
		idx.Manifests = append(idx.Manifests, g.zzImage(false))
	}
	b, _ := json.Marshal(idx)
	d := descriptor.Descriptor{MediaType: mediatype.OCI1ManifestList, Digest: digest.FromBytes(b), Size: int64(len(b))}
	zzos.Cur.Put(zzBlobPath(d.Digest), b)
	return d
}

// zzReachable is the independent mark phase: index -> manifests -> nested
// manifests -> config/layers, following only files that exist.
func zzReachable(seen map[digest.Digest]bool, d digest.Digest, depth int) {
	seen[d] = true
	if depth > 3 {
		return
	}
	b, ok := zzos.Cur.Data(zzBlobPath(d))
	if !ok {
		return
	}
	var probe struct {
		MediaType string                  `json:"mediaType"`
		Manifests []descriptor.Descriptor `json:"manifests"`
		Config    *descriptor.Descriptor  `json:"config"`
		Layers    []descriptor.Descriptor `json:"layers"`
		Blobs     []descriptor.Descriptor `json:"blobs"`
	}
	if json.Unmarshal(b, &probe) != nil {
		return
	}
	for _, m := range probe.Manifests {
		zzReachable(seen, m.Digest, depth+1)
	}
	if probe.Config != nil && probe.Config.Digest != "" {
		seen[probe.Config.Digest] = true
	}
	for _, l := range probe.Layers {
		seen[l.Digest] = true
	}
	for _, l := range probe.Blobs {
		seen[l.Digest] = true
	}
}

func zzBuild() (*zzGraph, ref.Ref, []descriptor.Descriptor) {
	zzos.Reset()
	g := &zzGraph{}
	for i := 0; i < 3; i++ {
		g.pool = append(g.pool, zzPutBlob([]byte{'b', byte('0' + i)}))
	}
	idx := indexCreate()
	n := zzInt("n_top", 0, 2)
	for i := 0; i < n; i++ {
		var d descriptor.Descriptor
		kinds := 3
		if i > 0 && zzTier() == 0 {
			kinds = 0 // quick: the second entry is a plain image
		}
		kind := zzInt("top_kind", 0, kinds)
		if i > 0 && kind == 2 {
			kind = 0 // thorough: the second entry is an image, a Docker image or an artifact
		}
		switch kind {
		case 3:
			d = g.zzArtifactM()
		case 0:
			d = g.zzImage(false)
		case 1:
			d = g.zzImage(true)
		case 2:
			d = g.zzNested()
		}
		if zzBool("tagged") {
			d.Annotations = map[string]string{aOCIRefName: string(rune('a' + i))}
		}
		idx.Manifests = append(idx.Manifests, d)
	}
	if zzBool("stray_tmp") {
		zzos.Cur.Put(zzG+"/blobs/sha256/leftover.12345.tmp", []byte("x"))
	}
	zzos.Cur.Put(zzG+"/oci-layout", []byte(`{"imageLayoutVersion":"1.0.0"}`))
	ib, _ := json.Marshal(idx)
	zzos.Cur.Put(zzG+"/index.json", ib)
	r, _ := ref.New("ocidir://" + zzG)
	return g, r, idx.Manifests
}

// Mark and sweep: nothing reachable is removed, everything unreachable under
// blobs/ is; Close collects only when the layout was modified, GC is on and no
// lock is held.
func ZZC08_gc_mark_sweep() {
	_, r, top := zzBuild()
	before := zzos.Cur.Files()
	reach := map[digest.Digest]bool{}
	for _, d := range top {
		zzReachable(reach, d.Digest, 0)
	}
	gcOn := zzBool("gc_on")
	o := New(WithGC(gcOn))
	mod := zzBool("modified")
	if mod {
		o.refMod(r)
	}
	locks := zzInt("locks", 0, 1+zzTier())
	for i := 0; i < locks; i++ {
		o.GCLock(r)
	}
	err := o.Close(context.Background(), r)
	zzAssert(err == nil, "gc_close_succeeds")
	zzReach("closed")
	collected := gcOn && mod && locks == 0
	for _, f := range before {
		if path.Dir(path.Dir(f)) != zzG+"/blobs" {
			zzAssert(zzos.Cur.Exists(f), "gc_touches_only_blobs")
			continue
		}
		d := digest.Digest(path.Base(path.Dir(f)) + ":" + path.Base(f))
		if reach[d] {
			zzAssert(zzos.Cur.Exists(f), "gc_keeps_reachable_content")
		} else if collected {
			zzReach("swept_something")
			zzAssert(!zzos.Cur.Exists(f), "gc_removes_unreachable_content")
		}
		if !collected {
			zzAssert(zzos.Cur.Exists(f), "gc_does_not_run_when_locked_unmodified_or_off")
		}
	}
}

// Lock counter: from an arbitrary counter value, GCLock/GCUnlock keep it equal
// to the number of outstanding locks, and Close never sweeps while it is > 0.
func ZZC08_gc_lock_step() {
	r, _ := ref.New("ocidir://" + zzG)
	o := New()
	L := zzInt("outstanding", 0, 3)
	if L > 0 || zzBool("entry_exists") {
		o.modRefs[r.Path] = &ociGC{locks: L, mod: zzBool("mod")}
	}
	switch zzInt("op", 0, 1) {
	case 0:
		o.GCLock(r)
		zzReach("locked")
		zzAssert(o.modRefs[r.Path] != nil && o.modRefs[r.Path].locks == L+1, "lock_increments")
	case 1:
		o.GCUnlock(r)
		zzReach("unlocked")
		if L > 1 {
			// other holders remain: their locks must survive this unlock
			gc := o.modRefs[r.Path]
			zzAssert(gc != nil && gc.locks == L-1, "unlock_keeps_the_other_locks")
		} else if L == 1 {
			gc := o.modRefs[r.Path]
			zzAssert(gc == nil || gc.locks == 0, "unlock_decrements")
		} else {
			zzAssert(o.modRefs[r.Path] == nil || o.modRefs[r.Path].locks == 0, "unlock_never_negative")
		}
	}
	// a write while locked marks the layout modified but keeps the lock count
	if gc := o.modRefs[r.Path]; gc != nil {
		before := gc.locks
		o.refMod(r)
		zzAssert(o.modRefs[r.Path].locks == before && o.modRefs[r.Path].mod, "refmod_keeps_locks")
	}
}

// Close sequences under a held lock: a copy holds the layout's lock (taken
// before or after the layout was first modified) while an arbitrary sequence
// of Close calls and writes (refMod, as every BlobPut/ManifestPut of the copy
// does) goes by. Content the copy has written but not yet linked from the
// index is unreachable - the collector must never run while the lock is held,
// so no file disappears. Once the lock is returned a Close after a
// modification does collect (the lock count did not drift upwards either).
func ZZC08_close_sequence() {
	zzos.Reset()
	zzos.Cur.Put(zzG+"/oci-layout", []byte(`{"imageLayoutVersion":"1.0.0"}`))
	zzos.Cur.Put(zzG+"/index.json", []byte(`{"schemaVersion":2,"mediaType":"application/vnd.oci.image.index.v1+json","manifests":[]}`))
	r, _ := ref.New("ocidir://" + zzG)
	o := New(WithGC(true))
	ctx := context.Background()
	if zzBool("modified_before_the_lock") {
		o.refMod(r)
	}
	L := zzInt("locks", 1, 2)
	for i := 0; i < L; i++ {
		o.GCLock(r)
	}
	written := 0
	steps := 3 + zzTier()
	for s := 0; s < steps; s++ {
		switch zzInt("step", 0, 2) {
		case 0: // somebody closes the layout (regsync does after every tag, found up to date or not)
			zzAssert(o.Close(ctx, r) == nil, "close_under_a_lock_succeeds")
		case 1: // the copy writes a blob that the index does not reach yet
			zzPutBlob([]byte{'w', byte('0' + written)})
			written++
			o.refMod(r)
		case 2: // one of two copies finishes
			if L > 1 {
				o.GCUnlock(r)
				L--
			}
		}
		for k := 0; k < written; k++ {
			zzAssert(zzos.Cur.Exists(zzBlobPath(digest.FromBytes([]byte{'w', byte('0' + k)}))), "no_collection_while_a_copy_holds_the_lock")
		}
	}
	zzReach("sequence_done")
	for ; L > 0; L-- {
		o.GCUnlock(r)
	}
	if written > 0 {
		zzAssert(o.Close(ctx, r) == nil, "close_after_the_copy_succeeds")
		zzReach("closed_after_unlock")
		for k := 0; k < written; k++ {
			zzAssert(!zzos.Cur.Exists(zzBlobPath(digest.FromBytes([]byte{'w', byte('0' + k)}))), "no_lock_leaked_collection_runs_afterwards")
		}
	}
}
