//zz:pkg .
//zz:subst scheme/ocidir os
package regclient

import (
	"context"
	"io"
	"log/slog"
	"strings"

	zzos "github.com/regclient/regclient/internal/zzos"
	"github.com/regclient/regclient/types/ref"
)

// A Close of the target layout racing with an image copy into it (C08): the
// copy runs with a second goroutine that closes the target reference (garbage
// collection enabled, an unreachable stray blob present, the layout already
// marked modified by an earlier push). At every file-system call of the copy
// the closer may run first (context-bounded, zzTurnSig). Whatever the
// schedule, a copy that reports success has left its complete content behind -
// the collector never ran under it - and once both have finished a further
// Close does collect the stray blob (no lock is leaked).
func ZZC08_copy_close_race() {
	zzSmall = true
	w := zzBuildWorld()
	zzos.Cur.Put(zzTgt+"/oci-layout", []byte(`{"imageLayoutVersion":"1.0.0"}`))
	zzos.Cur.Put(zzTgt+"/index.json", []byte(`{"schemaVersion":2,"mediaType":"application/vnd.oci.image.index.v1+json","manifests":[]}`))
	stray := zzTgt + "/blobs/sha256/0000000000000000000000000000000000000000000000000000000000000000"
	zzos.Cur.Put(stray, []byte("stray"))
	rc := New(WithSlog(slog.New(slog.NewTextHandler(io.Discard, nil))))
	ctx := context.Background()
	rSrc, _ := ref.New("ocidir://" + zzSrc + ":v1")
	rTgt, _ := ref.New("ocidir://" + zzTgt + ":v1")
	zzTurnBudget(zzParam("budget", 1+zzTier()))
	zzos.Cur.MayFail = func(op, name string) bool {
		// the closer may cut in before every state-changing call on the target (reads do not
		// change what the collector sees)
		if strings.HasPrefix(name, zzTgt) && op != "read" && op != "open" {
			zzTurnSig(zzSigStr(op, name))
		}
		return false
	}
	closed := make(chan error, 1)
	go func() {
		zzTurnSig(424242)
		closed <- rc.Close(ctx, rTgt)
	}()
	err := rc.ImageCopy(ctx, rSrc, rTgt)
	cerr := <-closed
	zzos.Cur.MayFail = nil
	zzAssert(err == nil, "C08_copy_beside_a_close_succeeds")
	zzAssert(cerr == nil, "C08_close_beside_a_copy_succeeds")
	zzReach("C08_copy_and_close_finished")
	for _, d := range w.all {
		got, ok := zzos.Cur.Data(zzBlobFile(zzTgt, d))
		zzAssert(ok && string(got) == string(w.bytes[d]), "C08_nothing_of_a_running_copy_is_collected")
	}
	zzAssert(zzTagOf(zzTgt) == w.top.Digest, "C08_copy_beside_a_close_succeeds")
	// afterwards no lock is outstanding: a Close collects the stray blob
	zzAssert(rc.Close(ctx, rTgt) == nil, "C08_final_close_succeeds")
	zzAssert(!zzos.Cur.Exists(stray), "C08_no_lock_leaked_stray_collected_afterwards")
	for _, d := range w.all {
		zzAssert(zzos.Cur.Exists(zzBlobFile(zzTgt, d)), "C08_final_close_keeps_the_image")
	}
}
