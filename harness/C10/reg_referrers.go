//zz:pkg scheme/reg
//zz:hook internal/reghttp Client.Do
package reg

import (
	"bytes"
	"context"
	"encoding/json"
	"fmt"
	"io"
	"log/slog"
	"net/http"
	"net/url"
	"strconv"
	"strings"
	"sync"
	"time"

	"github.com/opencontainers/go-digest"

	"github.com/regclient/regclient/internal/reghttp"
	"github.com/regclient/regclient/scheme"
	"github.com/regclient/regclient/types/descriptor"
	"github.com/regclient/regclient/types/manifest"
	"github.com/regclient/regclient/types/mediatype"
	v1 "github.com/regclient/regclient/types/oci/v1"
	"github.com/regclient/regclient/types/ref"
)

// zzRegistry is a distribution-spec registry for one repository behind the
// Client.Do seam: manifests by digest and tag, tag deletion, and - when hasAPI
// - the referrers API (OCI-Subject acknowledgement on push, optional
// server-side artifactType filter, optional paging through Link headers).
// Every request is handled atomically.
type zzRegistry struct {
	client  *reghttp.Client
	hasAPI  bool
	filters bool
	page    int
	body    map[string][]byte
	mt      map[string]string
	order   []string
	tags    map[string]string
	turnOf  func(ctx context.Context) int // concurrent harness: task id of the caller
	nReq    int
}

type zzTaskKey struct{}

const zzSBOM = "application/example.sbom"

func (s *zzRegistry) referrersOf(subject string, onlySBOM bool) []descriptor.Descriptor {
	out := []descriptor.Descriptor{}
	for _, dg := range s.order {
		b, ok := s.body[dg]
		if !ok {
			continue
		}
		var probe struct {
			ArtifactType string                 `json:"artifactType"`
			Config       *descriptor.Descriptor `json:"config"`
			Subject      *descriptor.Descriptor `json:"subject"`
			Annotations  map[string]string      `json:"annotations"`
		}
		if json.Unmarshal(b, &probe) != nil || probe.Subject == nil || probe.Subject.Digest.String() != subject {
			continue
		}
		at := probe.ArtifactType
		if at == "" && probe.Config != nil {
			at = probe.Config.MediaType
		}
		if onlySBOM && at != zzSBOM {
			continue
		}
		out = append(out, descriptor.Descriptor{MediaType: s.mt[dg], Digest: digest.Digest(dg), Size: int64(len(b)), ArtifactType: at, Annotations: probe.Annotations})
	}
	return out
}

func (s *zzRegistry) do(c *reghttp.Client, ctx context.Context, req *reghttp.Req) (*reghttp.Resp, error) {
	if s.turnOf != nil {
		zzTurn(s.turnOf(ctx))
	}
	s.nReq++
	u := req.DirectURL
	if u == nil {
		u = &url.URL{Scheme: "https", Host: "reg.example", Path: "/v2/repo/" + req.Path}
		if req.Query != nil {
			u.RawQuery = req.Query.Encode()
		}
	}
	reply := func(status int, h http.Header, body []byte) (*reghttp.Resp, error) {
		var rdr io.Reader
		if body != nil {
			rdr = bytes.NewReader(body)
		}
		resp := reghttp.ZZNewResp(s.client, ctx, req, u, status, h, rdr, int64(len(body)))
		if status < 200 || status >= 300 { // as the real Do: any non-2xx reply is an error
			return resp, fmt.Errorf("request failed: %w", reghttp.HTTPError(status))
		}
		return resp, nil
	}
	p := strings.TrimPrefix(u.Path, "/v2/repo/")
	switch {
	case strings.HasPrefix(p, "manifests/"):
		x := p[len("manifests/"):]
		isDigest := strings.Contains(x, ":")
		switch req.Method {
		case "PUT":
			b := req.BodyBytes
			dg := digest.FromBytes(b).String()
			if isDigest && x != dg {
				return reply(400, nil, nil)
			}
			if _, ok := s.body[dg]; !ok {
				s.order = append(s.order, dg)
			}
			s.body[dg] = b
			s.mt[dg] = req.Headers.Get("Content-Type")
			if !isDigest {
				s.tags[x] = dg
			}
			h := http.Header{"Docker-Content-Digest": {dg}}
			if s.hasAPI {
				var probe struct {
					Subject *descriptor.Descriptor `json:"subject"`
				}
				if json.Unmarshal(b, &probe) == nil && probe.Subject != nil {
					h.Set("OCI-Subject", probe.Subject.Digest.String())
				}
			}
			return reply(201, h, nil)
		case "GET", "HEAD":
			dg := x
			if !isDigest {
				dg = s.tags[x]
			}
			b, ok := s.body[dg]
			if !ok {
				return reply(404, nil, nil)
			}
			h := http.Header{"Content-Type": {s.mt[dg]}, "Docker-Content-Digest": {dg}, "Content-Length": {strconv.Itoa(len(b))}}
			if req.Method == "HEAD" {
				return reply(200, h, nil)
			}
			return reply(200, h, b)
		case "DELETE":
			if !isDigest {
				if _, ok := s.tags[x]; !ok {
					return reply(404, nil, nil)
				}
				delete(s.tags, x)
				return reply(202, nil, nil)
			}
			if _, ok := s.body[x]; !ok {
				return reply(404, nil, nil)
			}
			delete(s.body, x)
			for i, dg := range s.order {
				if dg == x {
					s.order = append(s.order[:i:i], s.order[i+1:]...)
					break
				}
			}
			for t, dg := range s.tags {
				if dg == x {
					delete(s.tags, t)
				}
			}
			return reply(202, nil, nil)
		}
	case strings.HasPrefix(p, "referrers/") && req.Method == "GET":
		if !s.hasAPI {
			return reply(404, nil, nil)
		}
		subject := p[len("referrers/"):]
		wantSBOM := strings.Contains(u.RawQuery, "artifactType=")
		h := http.Header{"Content-Type": {mediatype.OCI1ManifestList}}
		applied := wantSBOM && s.filters
		if applied {
			h.Set("OCI-Filters-Applied", "artifactType")
		}
		all := s.referrersOf(subject, applied)
		if s.page > 0 {
			pg := 0
			if i := strings.Index(u.RawQuery, "page="); i >= 0 {
				pg, _ = strconv.Atoi(u.RawQuery[i+5 : i+6])
			}
			lo, hi := pg*s.page, (pg+1)*s.page
			if lo > len(all) {
				lo = len(all)
			}
			if hi < len(all) {
				q := "page=" + strconv.Itoa(pg+1)
				if wantSBOM {
					q += "&artifactType=" + url.QueryEscape(zzSBOM)
				}
				h.Set("Link", "</v2/repo/referrers/"+subject+"?"+q+">; rel=\"next\"")
			} else {
				hi = len(all)
			}
			all = all[lo:hi]
		}
		b, _ := json.Marshal(v1.Index{Versioned: v1.IndexSchemaVersion, MediaType: mediatype.OCI1ManifestList, Manifests: all})
		return reply(200, h, b)
	}
	return reply(404, nil, nil)
}

func zzRegArtifact(i int, subject descriptor.Descriptor) manifest.Manifest {
	types := []string{zzSBOM, "application/example.sig", zzSBOM}
	cfg := []byte{'{', '}'}
	m, err := manifest.New(manifest.WithOrig(v1.Manifest{
		Versioned:    v1.ManifestSchemaVersion,
		MediaType:    mediatype.OCI1Manifest,
		ArtifactType: types[i],
		Config:       descriptor.Descriptor{MediaType: mediatype.OCI1Empty, Digest: digest.FromBytes(cfg), Size: 2},
		Layers:       []descriptor.Descriptor{{MediaType: mediatype.OCI1Empty, Digest: digest.FromBytes(cfg), Size: 2}},
		Subject:      &subject,
		Annotations:  map[string]string{"zz.id": string(rune('0' + i))},
	}))
	zzAssert(err == nil, "artifact_builds")
	return m
}

type zzRegWorld struct {
	rg                      *Reg
	srv                     *zzRegistry
	r                       ref.Ref
	rSubj                   ref.Ref
	subj                    descriptor.Descriptor
	arts                    []manifest.Manifest
	live                    []bool
	orderSet, filteredFirst bool
}

// zzRegSetup draws the registry configuration: referrers API or fallback tag,
// server-side filtering, page size, response cache on/off, and the form in
// which the subject is named (repo@digest or repo:tag@digest).
func zzRegSetup() *zzRegWorld {
	zzClockHorizon(int64(time.Minute))
	opts := []Opts{WithSlog(slog.New(slog.NewTextHandler(io.Discard, nil)))}
	if zzNarrow || zzBool("cache_on") {
		opts = append(opts, WithCache(time.Hour, 100))
	}
	rg := New(opts...)
	rg.reghttp = reghttp.ZZNewClient()
	srv := &zzRegistry{client: rg.reghttp, body: map[string][]byte{}, mt: map[string]string{}, tags: map[string]string{}}
	if !zzNarrow && zzBool("has_referrers_api") {
		srv.hasAPI = true
		srv.filters = zzBool("server_side_filter")
		srv.page = zzInt("page_size", 0, 2)
	}
	reghttp.ZZHook_Client_Do = srv.do
	w := &zzRegWorld{rg: rg, srv: srv}
	w.r, _ = ref.New("reg.example/repo")
	w.subj = descriptor.Descriptor{MediaType: mediatype.OCI1Manifest, Digest: digest.FromBytes([]byte("subject")), Size: 7}
	if !zzNarrow && zzBool("subject_named_with_tag") {
		w.rSubj, _ = ref.New("reg.example/repo:v1@" + w.subj.Digest.String())
	} else {
		w.rSubj = w.r.SetDigest(w.subj.Digest.String())
	}
	for i := 0; i < 3; i++ {
		w.arts = append(w.arts, zzRegArtifact(i, w.subj))
	}
	w.live = []bool{false, false, false}
	return w
}

// check compares what ReferrerList reports (unfiltered and filtered) and, on a
// registry without the API, the raw content of the fallback tag with the set
// of live artifacts.
func (w *zzRegWorld) check(ctx context.Context) {
	// the order of the two listings is a choice of the run: the first one after an
	// update meets a cold cache
	if !w.orderSet {
		// (the thorough tier spends its path budget on longer histories and keeps the order fixed)
		w.orderSet, w.filteredFirst = true, zzTier() == 0 && zzBool("filtered_listing_first")
	}
	if w.filteredFirst {
		w.checkFiltered(ctx)
	}
	w.checkAll(ctx)
	if !w.filteredFirst {
		w.checkFiltered(ctx)
	}
}

func (w *zzRegWorld) checkFiltered(ctx context.Context) {
	rlF, err := w.rg.ReferrerList(ctx, w.rSubj, scheme.WithReferrerMatchOpt(descriptor.MatchOpt{ArtifactType: zzSBOM}))
	zzAssert(err == nil, "filtered_list_succeeds")
	wantF := 0
	if w.live[0] {
		wantF++
	}
	if w.live[2] {
		wantF++
	}
	zzAssert(len(rlF.Descriptors) == wantF, "filter_selects_exactly_matching")
	for _, d := range rlF.Descriptors {
		zzAssert(d.ArtifactType == zzSBOM, "filter_selects_exactly_matching")
	}
}

func (w *zzRegWorld) checkAll(ctx context.Context) {
	rl, err := w.rg.ReferrerList(ctx, w.rSubj)
	zzAssert(err == nil, "list_succeeds")
	zzReach("listed")
	nLive := 0
	for j := range w.arts {
		cnt := 0
		want := w.arts[j].GetOrig().(v1.Manifest)
		for _, d := range rl.Descriptors {
			if d.Digest == w.arts[j].GetDescriptor().Digest {
				cnt++
				zzAssert(d.ArtifactType == want.ArtifactType, "artifact_type_carried")
				zzAssert(d.Annotations["zz.id"] == want.Annotations["zz.id"], "annotations_carried")
			}
		}
		if w.live[j] {
			nLive++
			zzAssert(cnt >= 1, "live_artifact_listed")
			zzAssert(cnt <= 1, "artifact_listed_once")
		} else {
			zzAssert(cnt == 0, "deleted_or_absent_artifact_not_listed")
		}
	}
	zzAssert(len(rl.Descriptors) == nLive, "nothing_else_listed")
	if !w.srv.hasAPI {
		// raw storage: the fallback tag holds exactly the live set (or is gone when empty)
		zzReach("fallback_tag_inspected")
		tag := strings.Replace(w.subj.Digest.String(), ":", "-", 1)
		dg, ok := w.srv.tags[tag]
		if !ok {
			zzAssert(nLive == 0, "fallback_tag_holds_the_live_set")
			return
		}
		var idx v1.Index
		zzAssert(json.Unmarshal(w.srv.body[dg], &idx) == nil, "fallback_tag_is_an_index")
		zzAssert(len(idx.Manifests) == nLive, "fallback_tag_holds_the_live_set")
		for j := range w.arts {
			found := false
			for _, d := range idx.Manifests {
				if d.Digest == w.arts[j].GetDescriptor().Digest {
					found = true
				}
			}
			zzAssert(found == w.live[j], "fallback_tag_holds_the_live_set")
		}
	}
}

func (w *zzRegWorld) put(ctx context.Context, i int) error {
	m := w.arts[i]
	return w.rg.ManifestPut(ctx, w.r.SetDigest(m.GetDescriptor().Digest.String()), m)
}

func (w *zzRegWorld) del(ctx context.Context, i int) error {
	m := w.arts[i]
	return w.rg.ManifestDelete(ctx, w.r.SetDigest(m.GetDescriptor().Digest.String()), scheme.WithManifestCheckReferrers())
}

func zzConc(i, n int) int {
	for k := 0; k < n; k++ {
		if i == k {
			return k
		}
	}
	return i
}

// Sequential histories of referrer-bearing pushes and referrer-aware deletes
// against a registry: after every step the reported referrers are exactly the
// live artifacts.
func ZZC10_reg_history() {
	w := zzRegSetup()
	ctx := context.Background()
	steps := 3 + zzTier()
	for s := 0; s < steps; s++ {
		i := zzConc(zzInt("which", 0, 2), 3)
		if zzBool("delete") {
			err := w.del(ctx, i)
			if w.live[i] {
				zzAssert(err == nil, "delete_of_live_artifact_succeeds")
			}
			if err == nil {
				w.live[i] = false
			}
		} else {
			zzAssert(w.put(ctx, i) == nil, "put_succeeds")
			w.live[i] = true
		}
		w.check(ctx)
		if s > 0 && !w.live[0] && !w.live[1] && !w.live[2] {
			zzReach("emptied")
		}
	}
}

// Concurrent updates of one subject through one client: from a symbolic
// pre-state, 2 (3 thorough) tasks each push or delete their own artifact; the
// tasks interleave at request granularity in every possible way (zzTurn).
// When all have finished the referrers are exactly pre-state +/- the updates.
func ZZC10_reg_concurrent() {
	zzRegConcurrent(2, false)
	// (three tasks multiply the interleavings beyond the path budget for the full configuration
	// space; the thorough tier runs them in ZZC10_reg_concurrent3 on the fallback-tag registry only)
}

// Three concurrent updates on a registry without the referrers API (the
// client-maintained fallback tag), response cache on. Thorough tier only.
func ZZC10_reg_concurrent3() {
	if zzTier() == 0 {
		zzReach("tasks_finished")
		return
	}
	zzNarrow = true
	zzRegConcurrent(3, false)
	zzNarrow = false
}

var zzNarrow bool

// The same with one updating task and a ReferrerList running beside it: once
// both have finished, a further listing still reports exactly the live set
// (a listing that overlapped an update must not leave a stale cache entry).
func ZZC10_reg_list_race() { zzRegConcurrent(1, true) }

func zzRegConcurrent(nTasks int, lister bool) {
	w := zzRegSetup()
	if lister {
		// the listing race is a known finding under one key (the stale entry shows in the unfiltered
		// listing); the order of the closing listings is kept fixed here so that the same stale entry
		// does not surface under a second label
		w.orderSet, w.filteredFirst = true, false
	}
	ctx := context.Background()
	for i := range w.arts {
		if zzBool("pre_live") {
			zzAssert(w.put(ctx, i) == nil, "put_succeeds")
			w.live[i] = true
		}
	}
	if !zzNarrow && zzBool("list_before") {
		// the cache may hold the pre-state
		w.check(ctx)
	}
	isDel := make([]bool, nTasks)
	for t := 0; t < nTasks; t++ {
		isDel[t] = zzBool("task_deletes")
	}
	w.srv.turnOf = func(ctx context.Context) int {
		id, _ := ctx.Value(zzTaskKey{}).(int)
		return id
	}
	var wg sync.WaitGroup
	if lister {
		wg.Add(1)
		go func() {
			defer wg.Done()
			defer zzTurnDone(9)
			_, _ = w.rg.ReferrerList(context.WithValue(ctx, zzTaskKey{}, 9), w.rSubj)
		}()
	}
	errs := make([]error, nTasks)
	for t := 0; t < nTasks; t++ {
		wg.Add(1)
		go func(t int) {
			defer wg.Done()
			defer zzTurnDone(t)
			tctx := context.WithValue(ctx, zzTaskKey{}, t)
			if isDel[t] {
				errs[t] = w.del(tctx, t)
			} else {
				errs[t] = w.put(tctx, t)
			}
		}(t)
	}
	wg.Wait()
	w.srv.turnOf = nil
	zzReach("tasks_finished")
	for t := 0; t < nTasks; t++ {
		if isDel[t] {
			if w.live[t] {
				zzAssert(errs[t] == nil, "delete_of_live_artifact_succeeds")
			}
			if errs[t] == nil {
				w.live[t] = false
			}
		} else {
			zzAssert(errs[t] == nil, "put_succeeds")
			w.live[t] = true
		}
	}
	w.check(ctx)
}
