//zz:pkg scheme/ocidir
//zz:subst scheme/ocidir os
package ocidir

import (
	"context"

	"github.com/opencontainers/go-digest"

	zzos "github.com/regclient/regclient/internal/zzos"
	"github.com/regclient/regclient/scheme"
	"github.com/regclient/regclient/types/descriptor"
	"github.com/regclient/regclient/types/manifest"
	"github.com/regclient/regclient/types/mediatype"
	v1 "github.com/regclient/regclient/types/oci/v1"
	"github.com/regclient/regclient/types/ref"
)

// zzArtifact builds artifact i for the given subject; its annotation value
// is a symbolic letter so that "annotations are carried" is a real obligation.
func zzArtifact(i int, subject descriptor.Descriptor, ann string) manifest.Manifest {
	types := []string{"application/example.sbom", "application/example.sig", "application/example.sbom"}
	cfg := []byte{'{', '}'}
	m, err := manifest.New(manifest.WithOrig(v1.Manifest{
		Versioned:    v1.ManifestSchemaVersion,
		MediaType:    mediatype.OCI1Manifest,
		ArtifactType: types[i],
		Config:       descriptor.Descriptor{MediaType: mediatype.OCI1Empty, Digest: digest.FromBytes(cfg), Size: 2},
		Layers:       []descriptor.Descriptor{{MediaType: mediatype.OCI1Empty, Digest: digest.FromBytes(cfg), Size: 2}},
		Subject:      &subject,
		Annotations:  map[string]string{"zz.id": string(rune('0' + i)), "zz.note": ann},
	}))
	zzAssert(err == nil, "artifact_builds")
	return m
}

// History of referrer-bearing pushes and referrer-aware deletes on a layout:
// after every step the referrers reported for the subject are exactly the
// live artifacts, each once, with artifact type and annotations, and filters
// select exactly the matching ones.
func ZZC10_ocidir_history() {
	zzos.Reset()
	zzos.Cur.Put(zzG10+"/oci-layout", []byte(`{"imageLayoutVersion":"1.0.0"}`))
	zzos.Cur.Put(zzG10+"/index.json", []byte(`{"schemaVersion":2,"mediaType":"application/vnd.oci.image.index.v1+json","manifests":[]}`))
	ctx := context.Background()
	r, _ := ref.New("ocidir://" + zzG10)
	o := New()
	// the subject need not exist; use a fixed digest
	subj := descriptor.Descriptor{MediaType: mediatype.OCI1Manifest, Digest: digest.FromBytes([]byte("subject")), Size: 7}
	rSubj := r.SetDigest(subj.Digest.String())
	ann := zzString("ann", 1)
	zzAssume(ann[0] >= 'a' && ann[0] <= 'z')
	arts := []manifest.Manifest{zzArtifact(0, subj, ann), zzArtifact(1, subj, ann), zzArtifact(2, subj, ann)}
	live := []bool{false, false, false}
	steps := 3 + zzTier()
	for s := 0; s < steps; s++ {
		i := zzInt("which", 0, 2)
		m := arts[i]
		rm := r.SetDigest(m.GetDescriptor().Digest.String())
		if zzBool("delete") {
			err := o.ManifestDelete(ctx, rm, scheme.WithManifestCheckReferrers())
			if live[i] {
				zzAssert(err == nil, "delete_of_live_artifact_succeeds")
			}
			if err == nil {
				live[i] = false
			}
		} else {
			err := o.ManifestPut(ctx, rm, m)
			zzAssert(err == nil, "put_succeeds")
			live[i] = true
		}
		rl, err := o.ReferrerList(ctx, rSubj)
		zzAssert(err == nil, "list_succeeds")
		zzReach("listed")
		for j := range arts {
			cnt := 0
			for _, d := range rl.Descriptors {
				if d.Digest == arts[j].GetDescriptor().Digest {
					cnt++
					want := arts[j].GetOrig().(v1.Manifest)
					zzAssert(d.ArtifactType == want.ArtifactType, "artifact_type_carried")
					zzAssert(d.Annotations["zz.note"] == ann && d.Annotations["zz.id"] == want.Annotations["zz.id"], "annotations_carried")
				}
			}
			if live[j] {
				zzAssert(cnt == 1, "live_artifact_listed_exactly_once")
			} else {
				zzAssert(cnt == 0, "deleted_or_absent_artifact_not_listed")
			}
		}
		nLive := 0
		for _, l := range live {
			if l {
				nLive++
			}
		}
		zzAssert(len(rl.Descriptors) == nLive, "nothing_else_listed")
		// filter by artifact type selects exactly the matching live artifacts
		rlF, err := o.ReferrerList(ctx, rSubj, scheme.WithReferrerMatchOpt(descriptor.MatchOpt{ArtifactType: "application/example.sbom"}))
		zzAssert(err == nil, "filtered_list_succeeds")
		wantF := 0
		if live[0] {
			wantF++
		}
		if live[2] {
			wantF++
		}
		zzAssert(len(rlF.Descriptors) == wantF, "filter_selects_exactly_matching")
		if nLive == 0 && s > 0 {
			zzReach("emptied")
		}
	}
}

const zzG10 = "/lay"

// Concurrent updates of one subject on a layout through one client: two tasks
// each push or referrer-aware delete their own artifact; before every
// state-changing file-system call the other task may be scheduled first
// (context-bounded, zzTurnSig). Afterwards the referrers are exactly the
// pre-state plus / minus the two updates.
func ZZC10_ocidir_concurrent() {
	zzos.Reset()
	zzos.Cur.Put(zzG10+"/oci-layout", []byte(`{"imageLayoutVersion":"1.0.0"}`))
	zzos.Cur.Put(zzG10+"/index.json", []byte(`{"schemaVersion":2,"mediaType":"application/vnd.oci.image.index.v1+json","manifests":[]}`))
	ctx := context.Background()
	r, _ := ref.New("ocidir://" + zzG10)
	o := New()
	subj := descriptor.Descriptor{MediaType: mediatype.OCI1Manifest, Digest: digest.FromBytes([]byte("subject")), Size: 7}
	rSubj := r.SetDigest(subj.Digest.String())
	arts := []manifest.Manifest{zzArtifact(0, subj, "x"), zzArtifact(1, subj, "x"), zzArtifact(2, subj, "x")}
	live := []bool{false, false, false}
	for i := range arts {
		if zzBool("pre_live") {
			zzAssert(o.ManifestPut(ctx, r.SetDigest(arts[i].GetDescriptor().Digest.String()), arts[i]) == nil, "put_succeeds")
			live[i] = true
		}
	}
	isDel := []bool{zzBool("task_deletes"), zzBool("task_deletes")}
	zzTurnBudget(2 + zzTier())
	zzos.Cur.MayFail = func(op, name string) bool {
		if op != "read" && op != "open" {
			h := 7
			for _, s := range []string{op, name} {
				for i := 0; i < len(s); i++ {
					h = (h*31 + int(s[i])) % 1000003
				}
			}
			zzTurnSig(h)
		}
		return false
	}
	errs := make([]error, 2)
	done := make(chan int, 2)
	for t := 0; t < 2; t++ {
		go func(t int) {
			rm := r.SetDigest(arts[t].GetDescriptor().Digest.String())
			if isDel[t] {
				errs[t] = o.ManifestDelete(ctx, rm, scheme.WithManifestCheckReferrers())
			} else {
				errs[t] = o.ManifestPut(ctx, rm, arts[t])
			}
			done <- t
		}(t)
	}
	<-done
	<-done
	zzos.Cur.MayFail = nil
	zzReach("layout_tasks_finished")
	for t := 0; t < 2; t++ {
		if isDel[t] {
			if live[t] {
				zzAssert(errs[t] == nil, "delete_of_live_artifact_succeeds")
			}
			if errs[t] == nil {
				live[t] = false
			}
		} else {
			zzAssert(errs[t] == nil, "put_succeeds")
			live[t] = true
		}
	}
	rl, err := o.ReferrerList(ctx, rSubj)
	zzAssert(err == nil, "list_succeeds")
	nLive := 0
	for j := range arts {
		cnt := 0
		for _, d := range rl.Descriptors {
			if d.Digest == arts[j].GetDescriptor().Digest {
				cnt++
			}
		}
		if live[j] {
			nLive++
			zzAssert(cnt == 1, "live_artifact_listed_exactly_once")
		} else {
			zzAssert(cnt == 0, "deleted_or_absent_artifact_not_listed")
		}
	}
	zzAssert(len(rl.Descriptors) == nLive, "nothing_else_listed")
}
