//zz:pkg types/platform
package platform

// zzPlat returns an arbitrary platform from the universe of the property:
// operating systems, architectures with aliases, variants, OS versions. OS
// and architecture are non-empty (REQUIRED by the image spec).
func zzPlat(pfx string) Platform {
	var p Platform
	if zzTier() > 0 {
		p.OS = zzChoose(pfx+"_os", "linux", "windows", "darwin", "macos", "freebsd")
		p.Architecture = zzChoose(pfx+"_arch", "amd64", "x86_64", "x86-64", "386", "i386", "arm", "armhf", "armel", "arm64", "aarch64", "ppc64le")
		p.Variant = zzChoose(pfx+"_var", "", "v1", "v2", "v3", "v5", "v6", "v7", "v8", "5", "6", "7", "8")
		p.OSVersion = zzChoose(pfx+"_osver", "", "10.0.17763.1000", "10.0.17763.2000", "10.0.20348.1", "10.0", "abc")
	} else {
		p.OS = zzChoose(pfx+"_os", "linux", "windows", "darwin", "macos", "freebsd")
		p.Architecture = zzChoose(pfx+"_arch", "amd64", "x86_64", "arm", "armhf", "arm64", "aarch64")
		p.Variant = zzChoose(pfx+"_var", "", "v1", "v2", "v6", "v7", "v8", "7", "8")
		p.OSVersion = zzChoose(pfx+"_osver", "", "10.0.17763", "10.0.17763.1000", "10.0.17763.2000", "10.0.20348.1")
	}
	return p
}

const zzNormalize = "(*github.com/regclient/regclient/types/platform.Platform).normalize"

// Laws that make a linear scan with Better return a maximal element whatever
// the order: irreflexive, asymmetric, transitive; and every compatible entry
// beats the zero platform (so something is found whenever something runs).
// Every call of the real comparison code is explored locally and merged, so
// each law is one solver query over all platform combinations at once.
func zzSummaries() {
	zzSummarize(zzNormalize)
	for _, f := range []string{"variantVer", "semverCmp", "osVerSemver", "variantCompatible", "osVerCompatible", "strSliceEq", "Compatible", "Match"} {
		zzSummarize("github.com/regclient/regclient/types/platform." + f)
	}
	zzSummarize("(*github.com/regclient/regclient/types/platform.compare).Compatible")
	zzSummarize("(*github.com/regclient/regclient/types/platform.compare).Match")
}

func ZZC16_laws() {
	zzSummaries()
	host := zzPlat("h")
	c := NewCompare(host)
	x, y, z := zzPlat("x"), zzPlat("y"), zzPlat("z")
	zzReach("start")
	better := func(a, b Platform) bool { return zzMerge(func() bool { return c.Better(a, b) }) }
	compat := func(a Platform) bool { return zzMerge(func() bool { return c.Compatible(a) }) }
	match := func(a Platform) bool { return zzMerge(func() bool { return c.Match(a) }) }
	bxx := better(x, x)
	bxy, byx := better(x, y), better(y, x)
	byz, bxz := better(y, z), better(x, z)
	cx, cy := compat(x), compat(y)
	mx, my := match(x), match(y)
	bx0 := better(x, Platform{})
	zzAssert(!bxx, "irreflexive")
	zzAssert(!(bxy && byx), "asymmetric")
	zzAssert(!cx || bx0, "compatible_beats_zero")
	zzAssert(cx || !bxy, "incompatible_never_better")
	zzAssert(!(bxy && byz) || bxz, "transitive")
	zzAssert(!mx || cx, "match_is_compatible")
	zzAssert(!(mx && cy && !my) || !byx, "compatible_never_beats_exact_match")
	if bxy && byz {
		zzReach("chain")
	}
	if mx && cy && !my {
		zzReach("match_vs_compatible")
	}
}
