//zz:pkg types/platform
package platform

// Platform strings: every string os/arch[/variant] built from the component
// universe (aliases included) parses; the parsed value prints to a string that
// parses back to the same value (normal form); printing is idempotent; and
// the documented aliases parse to the same value as their canonical spelling.
var zzOSs = []string{"linux", "windows", "darwin", "macos", "freebsd"}
var zzArchs = []string{"amd64", "x86_64", "x86-64", "386", "i386", "arm", "armhf", "armel", "arm64", "aarch64", "ppc64le", "riscv64"}
var zzVariants = []string{"", "v1", "v2", "v3", "v5", "v6", "v7", "v8", "5", "6", "7", "8"}

// canonical spelling of an alias (documented mapping)
var zzCanonArch = map[string]string{"x86_64": "amd64", "x86-64": "amd64", "i386": "386", "aarch64": "arm64"}

func zzPick(name string, opts []string) string {
	i := zzInt(name, 0, len(opts)-1)
	for k := range opts { // case split: a concrete component from here on
		if i == k {
			return opts[k]
		}
	}
	return opts[0]
}

func ZZC16_parse() {
	os, arch, variant := zzPick("os", zzOSs), zzPick("arch", zzArchs), zzPick("variant", zzVariants)
	s := os + "/" + arch
	if variant != "" {
		s += "/" + variant
	}
	if zzBool("upper_case") {
		s = os + "/" + zzUpper(arch)
		if variant != "" {
			s += "/" + variant
		}
	}
	p, err := Parse(s)
	zzAssert(err == nil, "component_strings_parse")
	zzReach("parsed")
	// normal form: prints and re-parses to itself
	out := p.String()
	q, err2 := Parse(out)
	zzAssert(err2 == nil, "printed_form_parses")
	zzAssert(q.OS == p.OS && q.Architecture == p.Architecture && q.Variant == p.Variant && q.OSVersion == p.OSVersion, "normal_form_reparses_to_itself")
	zzAssert(q.String() == out, "printing_is_idempotent")
	// aliases: same value as the canonical spelling
	if c, ok := zzCanonArch[arch]; ok {
		zzReach("alias")
		cs := os + "/" + c
		if variant != "" {
			cs += "/" + variant
		}
		pc, err3 := Parse(cs)
		zzAssert(err3 == nil && pc.OS == p.OS && pc.Architecture == p.Architecture, "alias_maps_to_the_canonical_architecture")
		if arch != "i386" {
			// (i386 additionally drops any variant while a literal 386 keeps it: a quirk outside the statement)
			zzAssert(pc.Variant == p.Variant, "alias_parses_like_its_canonical_spelling")
		}
	}
	if arch == "armhf" || arch == "armel" {
		zzAssert(p.Architecture == "arm" && (p.Variant == "v7") == (arch == "armhf"), "arm_aliases_fix_the_variant")
	}
	if os == "macos" {
		zzAssert(p.OS == "darwin", "macos_is_darwin")
	}
	// what Parse returns is already normalised
	n := p
	(&n).normalize()
	zzAssert(n.OS == p.OS && n.Architecture == p.Architecture && n.Variant == p.Variant, "parse_returns_the_normal_form")
}

func zzUpper(s string) string {
	b := []byte(s)
	for i := range b {
		if b[i] >= 'a' && b[i] <= 'z' {
			b[i] -= 32
		}
	}
	return string(b)
}
