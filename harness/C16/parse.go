//zz:pkg types/platform
package platform

// Platform strings: every string os/arch[/variant] built from the component
// universe (aliases included) parses; the parsed value prints to a string that
// parses back to the same value (normal form); printing is idempotent; and
// the documented aliases parse to the same value as their canonical spelling.
var zzOSs = []string{"linux", "windows", "darwin", "macos", "freebsd"}
var zzArchs = []string{"amd64", "x86_64", "x86-64", "386", "i386", "arm", "armhf", "armel", "arm64", "aarch64", "ppc64le", "riscv64"}
var zzVariants = []string{"", "v1", "v2", "v3", "v5", "v6", "v7", "v8", "5", "6", "7", "8"}

// canonical spelling of an alias (documented mapping)
var zzCanonArch = map[string]string{"x86_64": "amd64", "x86-64": "amd64", "i386": "386", "aarch64": "arm64"}

func zzPick(name string, opts []string) string {
	i := zzInt(name, 0, len(opts)-1)
	for k := range opts { // case split: a concrete component from here on
		if i == k {
			return opts[k]
		}
	}
	return opts[0]
}

func ZZC16_parse() {
	os, arch, variant := zzPick("os", zzOSs), zzPick("arch", zzArchs), zzPick("variant", zzVariants)
	s := os + "/" + arch
	if variant != "" {
		s += "/" + variant
	}
	if zzBool("upper_case") {
		s = os + "/" + zzUpper(arch)
		if variant != "" {
			s += "/" + variant
		}
	}
	p, err := Parse(s)
	zzAssert(err == nil, "component_strings_parse")
	zzReach("parsed")
	// normal form: prints and re-parses to itself
	out := p.String()
	q, err2 := Parse(out)
	zzAssert(err2 == nil, "printed_form_parses")
	zzAssert(q.OS == p.OS && q.Architecture == p.Architecture && q.Variant == p.Variant && q.OSVersion == p.OSVersion, "normal_form_reparses_to_itself")
	zzAssert(q.String() == out, "printing_is_idempotent")
	// aliases: same value as the canonical spelling
	if c, ok := zzCanonArch[arch]; ok {
		zzReach("alias")
		cs := os + "/" + c
		if variant != "" {
			cs += "/" + variant
		}
		pc, err3 := Parse(cs)
		zzAssert(err3 == nil && pc.OS == p.OS && pc.Architecture == p.Architecture, "alias_maps_to_the_canonical_architecture")
		if arch != "i386" {
			// (i386 additionally drops any variant while a literal 386 keeps it: a quirk outside the statement)
			zzAssert(pc.Variant == p.Variant, "alias_parses_like_its_canonical_spelling")
		}
	}
	if arch == "armhf" || arch == "armel" {
		zzAssert(p.Architecture == "arm" && (p.Variant == "v7") == (arch == "armhf"), "arm_aliases_fix_the_variant")
	}
	if os == "macos" {
		zzAssert(p.OS == "darwin", "macos_is_darwin")
	}
	// what Parse returns is already normalised
	n := p
	(&n).normalize()
	zzAssert(n.OS == p.OS && n.Architecture == p.Architecture && n.Variant == p.Variant, "parse_returns_the_normal_form")
}

func zzUpper(s string) string {
	b := []byte(s)
	for i := range b {
		if b[i] >= 'a' && b[i] <= 'z' {
			b[i] -= 32
		}
	}
	return string(b)
}

// Short forms and arguments. "local" is the local platform; an OS alone takes
// architecture and variant from the local platform when the local platform can
// run that OS; an architecture alone takes the local OS; `local/<arch>` takes
// the local OS; `,osver=<v>` (or `osversion`) sets the OS version and nothing
// else; a Windows version is filled in from the local platform only for a
// request the local platform would run. Every result is in normal form, and
// the selection it leads to is one the local platform can run.
var zzOSVers = []string{"10.0.17763.1000", "6.1"}
var zzShortArchs = []string{"amd64", "x86_64", "arm64", "arm"}

func ZZC16_parse_short() {
	loc := Local()
	zzReach("local_known")
	zzAssert(loc.OS == "linux" && loc.Architecture == "amd64", "engine_and_twin_run_on_linux_amd64")
	form := zzInt("form", 0, 5)
	osver := ""
	if zzBool("with_osver") {
		osver = zzPick("osver", zzOSVers)
	}
	key := ",osver="
	if zzBool("long_key") {
		key = ",OSVersion="
	}
	var s string
	var wantOS, wantArch string
	var os, arch, variant string
	switch form {
	case 0:
		s = "local"
	case 1:
		os = zzPick("os", zzOSs)
		s = os
		wantOS = os
	case 2:
		arch = zzPick("arch", zzArchs)
		s = arch
		wantOS = loc.OS
		wantArch = arch
	case 3:
		arch, variant = zzPick("arch", zzArchs), zzPick("variant", zzVariants)
		s = "local/" + arch
		if variant != "" {
			s += "/" + variant
		}
		wantOS = loc.OS
		wantArch = arch
	case 4:
		os, arch = zzPick("os", zzOSs), zzPick("arch", zzShortArchs)
		s = os + "/" + arch
		wantOS, wantArch = os, arch
	case 5:
		arch = zzPick("arch", zzShortArchs)
		s = "/" + arch // empty OS
	}
	if form == 5 {
		// an empty component is not a platform string
		_, err := Parse(s)
		zzAssert(err != nil, "empty_component_rejected")
		return
	}
	if osver != "" {
		s += key + osver
	}
	p, err := Parse(s)
	zzAssert(err == nil, "short_form_parses")
	zzReach("parsed")
	if form == 0 {
		zzAssert(p.OS == loc.OS && p.Architecture == loc.Architecture && p.Variant == loc.Variant, "local_is_the_local_platform")
	}
	if wantOS != "" {
		w := Platform{OS: wantOS}
		(&w).normalize()
		zzAssert(p.OS == w.OS, "operating_system_as_requested")
	}
	if wantArch != "" {
		w := Platform{OS: "linux", Architecture: wantArch}
		(&w).normalize()
		zzAssert(p.Architecture == w.Architecture, "architecture_as_requested")
	}
	if osver != "" && form != 0 {
		zzAssert(p.OSVersion == osver, "osver_argument_sets_the_version")
	}
	if osver == "" && form != 0 {
		// the local platform is linux: no version is ever invented
		zzAssert(p.OSVersion == "", "no_version_invented")
	}
	if form == 1 {
		if p.OS == "linux" {
			zzReach("os_only_local")
			zzAssert(p.Architecture == loc.Architecture && p.Variant == loc.Variant, "os_alone_expands_to_the_local_machine")
		} else {
			// another OS is not run locally: nothing is borrowed from this machine
			zzAssert(p.Architecture == "" && p.Variant == "", "foreign_os_borrows_nothing")
		}
	}
	if form == 2 && p.Architecture == loc.Architecture {
		zzAssert(p.Variant == loc.Variant, "local_architecture_alone_takes_the_local_variant")
	}
	// normal form
	n := p
	(&n).normalize()
	zzAssert(n.OS == p.OS && n.Architecture == p.Architecture && n.Variant == p.Variant && n.OSVersion == p.OSVersion, "short_form_result_is_normal")
	// what the parsed platform selects is something it declares compatible with itself
	zzAssert(Compatible(p, p) || p.Architecture == "", "parsed_platform_runs_itself")
	if form == 0 || (form == 1 && p.OS == "linux") || (form == 2 && p.Architecture == loc.Architecture && variant == "") {
		zzAssert(Compatible(loc, p), "short_form_of_this_machine_is_runnable_here")
	}
}
