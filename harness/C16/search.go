//zz:pkg types/descriptor
package descriptor

import (
	"github.com/opencontainers/go-digest"

	"github.com/regclient/regclient/types/platform"
)

func zzPlat(pfx string) platform.Platform {
	var p platform.Platform
	if zzTier() > 0 {
		p.OS = zzChoose(pfx+"_os", "linux", "windows", "darwin", "macos", "freebsd")
		p.Architecture = zzChoose(pfx+"_arch", "amd64", "x86_64", "arm", "armhf", "arm64", "aarch64")
		p.Variant = zzChoose(pfx+"_var", "", "v1", "v2", "v6", "v7", "v8", "7", "8")
		p.OSVersion = zzChoose(pfx+"_osver", "", "10.0.17763", "10.0.17763.1000", "10.0.17763.2000", "10.0.20348.1")
	} else {
		p.OS = zzChoose(pfx+"_os", "linux", "windows", "darwin")
		p.Architecture = zzChoose(pfx+"_arch", "amd64", "arm", "arm64", "aarch64")
		p.Variant = zzChoose(pfx+"_var", "", "v6", "v7", "v8")
		p.OSVersion = zzChoose(pfx+"_osver", "", "10.0.17763", "10.0.17763.1000", "10.0.17763.2000", "10.0.20348.1")
	}
	return p
}

func zzSummaries() {
	const pp = "github.com/regclient/regclient/types/platform."
	zzSummarize("(*" + pp + "Platform).normalize")
	for _, f := range []string{"variantVer", "semverCmp", "osVerSemver", "variantCompatible", "osVerCompatible", "strSliceEq", "Compatible", "Match"} {
		zzSummarize(pp + f)
	}
	zzSummarize("(*" + pp + "compare).Compatible")
	zzSummarize("(*" + pp + "compare).Match")
	zzSummarize("(*" + pp + "compare).Better")
}

var zzDigests = []digest.Digest{
	"sha256:1111111111111111111111111111111111111111111111111111111111111111",
	"sha256:2222222222222222222222222222222222222222222222222222222222222222",
	"sha256:3333333333333333333333333333333333333333333333333333333333333333",
	"sha256:4444444444444444444444444444444444444444444444444444444444444444",
}

// The entry returned for a requested platform is one the platform can run;
// one is found whenever a runnable entry exists; an exact match wins over a
// merely compatible entry; no entry ranked strictly better is passed over.
// Entries without a platform are never selected.
func ZZC16_search() {
	zzSummaries()
	host := zzPlat("h")
	n := 3
	var dl []Descriptor
	plats := make([]platform.Platform, n)
	has := make([]bool, n)
	for i := 0; i < n; i++ {
		d := Descriptor{Digest: zzDigests[i], Size: 1}
		has[i] = zzBool("has_platform")
		if has[i] {
			plats[i] = zzPlat("e")
			p := plats[i]
			d.Platform = &p
		}
		dl = append(dl, d)
	}
	zzReach("start")
	r := zzMerge(func() int {
		h := host
		d, err := DescriptorListSearch(dl, MatchOpt{Platform: &h})
		if err != nil {
			return -1
		}
		for i := range dl {
			if dl[i].Digest == d.Digest {
				return i
			}
		}
		return -2
	})
	zzAssert(r >= -1, "result_is_an_entry_or_not_found")
	c := platform.NewCompare(host)
	compat := make([]bool, n)
	match := make([]bool, n)
	anyCompat, anyMatch := false, false
	for i := 0; i < n; i++ {
		if has[i] {
			compat[i] = c.Compatible(plats[i])
			match[i] = c.Match(plats[i])
		}
		anyCompat = anyCompat || compat[i]
		anyMatch = anyMatch || (match[i] && compat[i])
	}
	if r < 0 {
		zzReach("not_found")
		zzAssert(!anyCompat, "found_whenever_a_runnable_entry_exists")
		return
	}
	zzReach("found")
	zzAssert(has[r], "selected_entry_has_platform")
	zzAssert(compat[r], "selected_entry_is_runnable")
	zzAssert(!anyMatch || match[r], "exact_match_preferred")
	for i := 0; i < n; i++ {
		if has[i] {
			zzAssert(!c.Better(plats[i], plats[r]), "no_better_entry_passed_over")
		}
	}
}
