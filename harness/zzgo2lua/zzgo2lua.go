// Package zzgo2lua models cmd/regbot/internal/go2lua (reflection-based
// conversion between Go values and Lua tables): Export hands back an empty
// table, Import leaves the destination unchanged (or, when ImportHook is set,
// lets the harness fill it). What scripts can read or change through those
// tables is outside the dry-run property, which is about registry and layout
// state.
package zzgo2lua

import (
	lua "github.com/regclient/regclient/internal/zzlua"
)

var ImportHook func(v interface{})

func Export(ls *lua.LState, v interface{}) lua.LValue { return ls.NewTable() }

func Import(ls *lua.LState, lv lua.LValue, v, orig interface{}) error {
	if ImportHook != nil {
		ImportHook(v)
	}
	return nil
}
