//zz:pkg .
//zz:subst scheme/ocidir os
package regclient

import (
	"context"
	"encoding/json"
	"path"
	"strings"

	"github.com/opencontainers/go-digest"

	zzos "github.com/regclient/regclient/internal/zzos"
	"github.com/regclient/regclient/types/descriptor"
	"github.com/regclient/regclient/types/mediatype"
	v1 "github.com/regclient/regclient/types/oci/v1"
	"github.com/regclient/regclient/types/ref"
)

// Image copy between two OCI layouts, executed with the real client and the
// real ocidir scheme on the in-memory os model. The source holds a symbolic
// small image graph; the target starts with a symbolic subset of it.

const zzSrc, zzTgt = "/src", "/tgt"

type zzWorld struct {
	pool      []descriptor.Descriptor
	bytes     map[digest.Digest][]byte
	top       descriptor.Descriptor
	all       []digest.Digest // closure of top (manifests and blobs)
	mans      map[digest.Digest]bool
	foreign   digest.Digest          // a layer referenced with external URLs ("" if none)
	plain     map[digest.Digest]bool // blobs referenced without URLs somewhere
	notHosted map[digest.Digest]bool // blobs the source does not hold
}

var zzWantBlobEntry bool // an index additionally lists a blob-typed entry
var zzSingleImageWorld bool // the harness is about something else than the graph: one image
var zzWantArtifactEntry bool // an index additionally lists an OCI artifact manifest (no case of its own in the copy)

var zzWantForeign bool // registry harness: the first layer of the first image is a foreign layer

func zzBlobFile(root string, d digest.Digest) string {
	return path.Join(root, "blobs", d.Algorithm().String(), d.Encoded())
}

func (w *zzWorld) put(b []byte, mt string, manifest bool) descriptor.Descriptor {
	d := digest.FromBytes(b)
	w.bytes[d] = b
	if manifest {
		w.mans[d] = true
	}
	zzos.Cur.Put(zzBlobFile(zzSrc, d), b)
	return descriptor.Descriptor{MediaType: mt, Digest: d, Size: int64(len(b))}
}

var zzSmall bool // reduced variety for the fault harness

func (w *zzWorld) image(id int) descriptor.Descriptor {
	cfg := w.put([]byte(`{"architecture":"amd64","os":"linux","id":`+string(rune('0'+id))+`}`), mediatype.OCI1ImageConfig, false)
	w.all = append(w.all, cfg.Digest)
	nl := 1
	if !zzSmall {
		nl = zzInt("n_layers", 1, 2)
	}
	layers := []descriptor.Descriptor{}
	for i := 0; i < nl; i++ {
		l := w.pool[zzInt("layer", 0, len(w.pool)-1)] // layers may be shared or repeated
		if zzWantForeign && id == 0 && i == 0 {
			l.MediaType = mediatype.OCI1ForeignLayerGzip
			l.URLs = []string{"https://ext.example/x/" + l.Digest.Encoded()}
			w.foreign = l.Digest
		} else {
			w.plain[l.Digest] = true
		}
		layers = append(layers, l)
		w.all = append(w.all, l.Digest)
	}
	b, _ := json.Marshal(v1.Manifest{Versioned: v1.ManifestSchemaVersion, MediaType: mediatype.OCI1Manifest, Config: cfg, Layers: layers})
	d := w.put(b, mediatype.OCI1Manifest, true)
	w.all = append(w.all, d.Digest)
	return d
}

func zzBuildWorld() *zzWorld {
	zzos.Reset()
	w := &zzWorld{bytes: map[digest.Digest][]byte{}, mans: map[digest.Digest]bool{}, plain: map[digest.Digest]bool{}}
	for i := 0; i < 2; i++ {
		w.pool = append(w.pool, w.put([]byte{'l', byte('0' + i)}, mediatype.OCI1LayerGzip, false))
	}
	if !zzSingleImageWorld && zzBool("is_index") {
		n := zzInt("n_images", 1, 2)
		idx := v1.Index{Versioned: v1.IndexSchemaVersion, MediaType: mediatype.OCI1ManifestList}
		for i := 0; i < n; i++ {
			idx.Manifests = append(idx.Manifests, w.image(i))
		}
		if zzWantBlobEntry {
			// an index entry that is a blob (here with a layer media type)
			x := w.put([]byte("blob-entry"), mediatype.OCI1LayerGzip, false)
			idx.Manifests = append(idx.Manifests, x)
			w.all = append(w.all, x.Digest)
			w.plain[x.Digest] = true
		}
		if zzWantArtifactEntry {
			// an index entry that is a manifest of a type the copy has no case for (an OCI artifact
			// manifest naming one blob): it is copied through the "unknown media type" branch
			ab := []byte(`{"mediaType":"application/vnd.oci.artifact.manifest.v1+json","artifactType":"application/example","blobs":[{"mediaType":"application/octet-stream","digest":"` + w.pool[1].Digest.String() + `","size":2}]}`)
			x := w.put(ab, "application/vnd.oci.artifact.manifest.v1+json", true)
			idx.Manifests = append(idx.Manifests, x)
			w.all = append(w.all, w.pool[1].Digest, x.Digest)
			w.plain[w.pool[1].Digest] = true
		}
		b, _ := json.Marshal(idx)
		w.top = w.put(b, mediatype.OCI1ManifestList, true)
		w.all = append(w.all, w.top.Digest)
	} else {
		w.top = w.image(0)
	}
	top := w.top
	top.Annotations = map[string]string{"org.opencontainers.image.ref.name": "v1"}
	sidx := v1.Index{Versioned: v1.IndexSchemaVersion, MediaType: mediatype.OCI1ManifestList, Manifests: []descriptor.Descriptor{top}}
	sb, _ := json.Marshal(sidx)
	zzos.Cur.Put(zzSrc+"/oci-layout", []byte(`{"imageLayoutVersion":"1.0.0"}`))
	zzos.Cur.Put(zzSrc+"/index.json", sb)
	return w
}

// zzSeedTarget puts a symbolic subset of the image's objects into the
// target, and a stale / absent / equal tag.
func (w *zzWorld) zzSeedTarget() (had map[digest.Digest]bool, oldTag digest.Digest) {
	had = map[digest.Digest]bool{}
	if zzBool("target_is_new") {
		return had, ""
	}
	for _, d := range w.all {
		if had[d] {
			continue
		}
		if w.mans[d] {
			continue // manifests are only pre-seeded as a whole image below
		}
		if !zzSmall && zzBool("blob_present") {
			had[d] = true
			zzos.Cur.Put(zzBlobFile(zzTgt, d), w.bytes[d])
		}
	}
	tidx := v1.Index{Versioned: v1.IndexSchemaVersion, MediaType: mediatype.OCI1ManifestList, Manifests: []descriptor.Descriptor{}}
	if zzBool("stale_tag") {
		stale := []byte(`{"schemaVersion":2,"mediaType":"application/vnd.oci.image.manifest.v1+json","config":{"mediaType":"application/vnd.oci.empty.v1+json","digest":"sha256:44136fa355b3678a1146ad16f7e8649e94fb4fc21fe77e8310c060f61caaff8a","size":2},"layers":[]}`)
		d := digest.FromBytes(stale)
		zzos.Cur.Put(zzBlobFile(zzTgt, d), stale)
		zzos.Cur.Put(zzBlobFile(zzTgt, "sha256:44136fa355b3678a1146ad16f7e8649e94fb4fc21fe77e8310c060f61caaff8a"), []byte("{}"))
		tidx.Manifests = append(tidx.Manifests, descriptor.Descriptor{MediaType: mediatype.OCI1Manifest, Digest: d, Size: int64(len(stale)),
			Annotations: map[string]string{"org.opencontainers.image.ref.name": "v1"}})
		oldTag = d
	}
	tb, _ := json.Marshal(tidx)
	zzos.Cur.Put(zzTgt+"/oci-layout", []byte(`{"imageLayoutVersion":"1.0.0"}`))
	zzos.Cur.Put(zzTgt+"/index.json", tb)
	return had, oldTag
}

func zzTagOf(root string) digest.Digest {
	b, ok := zzos.Cur.Data(root + "/index.json")
	if !ok {
		return ""
	}
	var idx v1.Index
	if json.Unmarshal(b, &idx) != nil {
		return "invalid"
	}
	for _, e := range idx.Manifests {
		if e.Annotations["org.opencontainers.image.ref.name"] == "v1" {
			return e.Digest
		}
	}
	return ""
}

// zzRefsPresent: every object the manifest bytes reference exists under root.
func zzRefsPresent(root string, b []byte) bool {
	var probe struct {
		Manifests []descriptor.Descriptor `json:"manifests"`
		Config    *descriptor.Descriptor  `json:"config"`
		Layers    []descriptor.Descriptor `json:"layers"`
		Blobs     []descriptor.Descriptor `json:"blobs"`
	}
	if json.Unmarshal(b, &probe) != nil {
		return true
	}
	for _, m := range append(probe.Manifests, probe.Blobs...) {
		if !zzos.Cur.Exists(zzBlobFile(root, m.Digest)) {
			return false
		}
	}
	if probe.Config != nil && probe.Config.Digest != "" && !zzos.Cur.Exists(zzBlobFile(root, probe.Config.Digest)) {
		return false
	}
	for _, l := range probe.Layers {
		if !zzos.Cur.Exists(zzBlobFile(root, l.Digest)) {
			return false
		}
	}
	return true
}

// Copy without faults over the full variety of graphs and target pre-states
// (C03 completeness, C04 ordering, C14 minimal transfer).
func ZZC03_copy_layouts() {
	zzSmall = false
	zzCopy(-1)
}

// Copy with a single fault at a symbolic file-system call of the target
// (C04: failure never moves the tag; whatever was written stays complete).
func ZZC03_copy_faults() {
	zzSmall = true
	zzCopy(zzInt("fail_at", 0, 45+20*zzTier()))
}

func zzCopy(failAt int) {
	zzWantArtifactEntry = zzBool("artifact_manifest_entry")
	w := zzBuildWorld()
	zzWantArtifactEntry = false
	had, oldTag := w.zzSeedTarget()
	calls := 0
	zzos.Cur.MayFail = func(op, name string) bool {
		if !strings.HasPrefix(name, zzTgt) {
			return false
		}
		// records the order of target operations across the copy goroutines so that the
		// native twin repeats it (no schedule exploration here: budget 0)
		zzTurnSig(zzSigStr(op, name))
		calls++
		return calls-1 == failAt
	}
	// monitors
	tagWrites := 0
	afterTag := 0
	srcRead := map[string]int{}
	zzos.Cur.Observer = func(op zzos.Op) {
		if !strings.HasPrefix(op.Path, zzTgt) {
			zzFail("C03_copy_writes_only_to_the_target")
			return
		}
		if tagWrites > 0 {
			afterTag++
		}
		if op.Kind == "rename" && strings.HasPrefix(op.Path2, zzTgt+"/blobs/") {
			// an object becomes visible under its digest: if it is a manifest, its references must be there
			data, _ := zzos.Cur.Data(op.Path)
			if w.mans[digest.Digest("sha256:"+path.Base(op.Path2))] {
				zzReach("manifest_written")
				zzAssert(zzRefsPresent(zzTgt, data), "C04_children_before_parents")
			}
		}
		if op.Kind == "rename" && op.Path2 == zzTgt+"/index.json" {
			data, _ := zzos.Cur.Data(op.Path)
			var idx v1.Index
			if json.Unmarshal(data, &idx) == nil {
				for _, e := range idx.Manifests {
					if e.Annotations["org.opencontainers.image.ref.name"] == "v1" && e.Digest == w.top.Digest {
						tagWrites++
						zzAssert(zzos.Cur.Exists(zzBlobFile(zzTgt, w.top.Digest)), "C04_tagged_manifest_present_when_tag_moves")
					}
				}
			}
		}
	}
	zzos.Cur.ReadObserver = func(name string, n int) {
		if strings.HasPrefix(name, zzSrc+"/blobs/") && n > 0 {
			srcRead[name]++
		}
	}
	rc := New()
	rSrc, _ := ref.New("ocidir://" + zzSrc + ":v1")
	rTgt, _ := ref.New("ocidir://" + zzTgt + ":v1")
	err := rc.ImageCopy(context.Background(), rSrc, rTgt)
	zzos.Cur.MayFail, zzos.Cur.Observer, zzos.Cur.ReadObserver = nil, nil, nil
	zzReach("copy_returned")
	now := zzTagOf(zzTgt)
	if err != nil {
		zzReach("copy_failed")
		zzAssert(failAt >= 0 && failAt < calls, "C03_copy_without_faults_succeeds")
		// failure never moves the tag, unless the final write itself had already happened
		zzAssert(now == oldTag || (now == w.top.Digest && tagWrites > 0), "C04_failed_copy_leaves_tag_alone")
		return
	}
	zzReach("copy_succeeded")
	// C03: the target tag resolves to the source digest and the closure is there, byte-identical
	zzAssert(now == w.top.Digest, "C03_target_tag_is_source_digest")
	for _, d := range w.all {
		got, ok := zzos.Cur.Data(zzBlobFile(zzTgt, d))
		zzAssert(ok && string(got) == string(w.bytes[d]), "C03_closure_present_and_identical")
	}
	// C04: the tag is written once and nothing is written after it
	zzAssert(tagWrites <= 1, "C04_tag_written_once")
	zzAssert(tagWrites == 0 || afterTag <= 1, "C04_tag_written_last")
	// C14: nothing the target already had is read again, nothing is read twice
	for _, d := range w.all {
		if w.mans[d] {
			continue
		}
		n := srcRead[zzBlobFile(zzSrc, d)]
		if had[d] {
			zzAssert(n == 0, "C14_existing_blob_not_transferred")
		}
	}
}

func zzSigStr(parts ...string) int {
	h := 7
	for _, s := range parts {
		for i := 0; i < len(s); i++ {
			h = (h*31 + int(s[i])) % 1000003
		}
		h = (h*31 + 1) % 1000003
	}
	return h
}
