//zz:pkg .
//zz:subst scheme/ocidir os
//zz:hook internal/reghttp Client.Do
//zz:use zzreg
package regclient

import (
	"bytes"
	"context"
	"encoding/json"
	"fmt"
	"io"
	"log/slog"
	"net/http"
	"strconv"
	"strings"

	"github.com/opencontainers/go-digest"

	"github.com/regclient/regclient/internal/reghttp"
	zzos "github.com/regclient/regclient/internal/zzos"
	"github.com/regclient/regclient/internal/zzreg"
	"github.com/regclient/regclient/scheme"
	"github.com/regclient/regclient/scheme/reg"
	"github.com/regclient/regclient/types/descriptor"
	"github.com/regclient/regclient/types/ref"
)

// Image copy with registries as endpoints. The registries are zzreg models
// behind the Client.Do seam (one per host); the layout side is the real ocidir
// scheme on the in-memory os model. Endpoint pairing, registry features,
// target pre-state and (in the fault harness) one failing request position are
// symbolic.

type zzNet struct {
	regs     map[string]*zzreg.Registry
	ext      map[string][]byte // hex -> content served by ext.example
	extCalls int
}

func (n *zzNet) do(c *reghttp.Client, ctx context.Context, req *reghttp.Req) (*reghttp.Resp, error) {
	if req.DirectURL != nil && req.DirectURL.Host == "ext.example" {
		// the external location of a foreign layer: serves GET and HEAD of /x/<hex>
		n.extCalls++
		b, ok := n.ext[strings.TrimPrefix(req.DirectURL.Path, "/x/")]
		if !ok || (req.Method != "GET" && req.Method != "HEAD") {
			return reghttp.ZZNewResp(c, ctx, req, req.DirectURL, 404, nil, nil, 0), fmt.Errorf("request failed: %w", reghttp.HTTPError(404))
		}
		h := http.Header{"Content-Length": {strconv.Itoa(len(b))}}
		if req.Method == "HEAD" {
			return reghttp.ZZNewResp(c, ctx, req, req.DirectURL, 200, h, nil, 0), nil
		}
		return reghttp.ZZNewResp(c, ctx, req, req.DirectURL, 200, h, bytes.NewReader(b), int64(len(b))), nil
	}
	host := req.Host
	if req.DirectURL != nil && req.DirectURL.Host != "" {
		host = req.DirectURL.Host
	}
	if r, ok := n.regs[host]; ok {
		return r.Do(c, ctx, req)
	}
	return n.regs[req.Host].Do(c, ctx, req)
}

// zzLoadRepo stores the whole source image in a registry repository.
func (w *zzWorld) zzLoadRepo(r *zzreg.Registry, repo, tag string) {
	for d, b := range w.bytes {
		if w.mans[d] || w.notHosted[d] {
			continue
		}
		r.PutBlob(repo, b)
	}
	// children before parents: w.all lists the closure bottom-up
	for _, d := range w.all {
		if w.mans[d] {
			mt := "application/vnd.oci.image.manifest.v1+json"
			if strings.Contains(string(w.bytes[d]), `"manifests"`) {
				mt = "application/vnd.oci.image.index.v1+json"
			}
			t := ""
			if d == w.top.Digest {
				t = tag
			}
			r.PutManifest(repo, t, mt, w.bytes[d])
		}
	}
}

const zzHostA, zzHostB = "a.example", "b.example"

func ZZC03_copy_registry() {
	zzSmall = false
	zzCopyReg(-1)
}

func ZZC03_copy_registry_faults() {
	zzSmall = true
	zzCopyReg(zzInt("fail_at", 0, 14+16*zzTier()))
}

func zzCopyReg(failAt int) {
	pairing := zzInt("pairing", 0, 4)
	zzSmall = failAt >= 0 || pairing >= 1 // full graph variety only for layout -> registry (thorough adds it to the foreign-layer and blob-entry variants)
	zzWantForeign = failAt < 0 && zzBool("foreign_layer")
	if zzWantForeign && zzTier() == 0 {
		zzSmall = true // quick: the foreign layer variant uses the small graph
	}
	zzWantBlobEntry = failAt < 0 && (zzTier() > 0 || pairing == 3) && zzBool("blob_typed_index_entry")
	w := zzBuildWorld() // source content in the layout /src and in w.bytes
	zzWantForeign, zzWantBlobEntry = false, false
	includeExternal := false
	if w.foreign != "" {
		includeExternal = zzBool("include_external")
		if !w.plain[w.foreign] && !zzBool("source_hosts_foreign_layer") {
			// the layer lives only at its external location
			w.notHosted = map[digest.Digest]bool{w.foreign: true}
			_ = zzos.Remove(zzBlobFile(zzSrc, w.foreign))
		}
	}
	ra, rb := zzreg.New(zzHostA), zzreg.New(zzHostB)
	ra.ValidateRefs, rb.ValidateRefs = false, false // judged by the oracle below instead of a 400
	net := &zzNet{regs: map[string]*zzreg.Registry{zzHostA: ra, zzHostB: rb}, ext: map[string][]byte{}}
	if w.foreign != "" {
		net.ext[w.foreign.Encoded()] = w.bytes[w.foreign]
	}
	reghttp.ZZHook_Client_Do = net.do

	// endpoint pairing
	var rSrc, rTgt ref.Ref
	var tgtReg *zzreg.Registry
	tgtRepo := "tgt"
	srcIsReg := false
	switch pairing {
	case 0: // layout -> registry
		rSrc, _ = ref.New("ocidir://" + zzSrc + ":v1")
		rTgt, _ = ref.New(zzHostA + "/tgt:v1")
		tgtReg = ra
	case 1: // same registry, other repository (mount granted or refused)
		w.zzLoadRepo(ra, "src", "v1")
		ra.Mount = zzBool("mount_granted")
		rSrc, _ = ref.New(zzHostA + "/src:v1")
		rTgt, _ = ref.New(zzHostA + "/tgt:v1")
		tgtReg, srcIsReg = ra, true
	case 2: // two registries
		w.zzLoadRepo(rb, "src", "v1")
		rSrc, _ = ref.New(zzHostB + "/src:v1")
		rTgt, _ = ref.New(zzHostA + "/tgt:v1")
		tgtReg, srcIsReg = ra, true
	case 3: // registry -> layout
		w.zzLoadRepo(ra, "src", "v1")
		rSrc, _ = ref.New(zzHostA + "/src:v1")
		rTgt, _ = ref.New("ocidir://" + zzTgt + ":v1")
		srcIsReg = true
	case 4: // retag inside one repository
		w.zzLoadRepo(ra, "src", "v1")
		rSrc, _ = ref.New(zzHostA + "/src:v1")
		rTgt, _ = ref.New(zzHostA + "/src:v2")
		tgtReg, tgtRepo, srcIsReg = ra, "src", true
	}
	if tgtReg != nil {
		tgtReg.HeadDigest = !zzBool("no_digest_header")
	}

	// target pre-state
	had := map[digest.Digest]bool{}
	var oldTag digest.Digest
	tgtTag := rTgt.Tag
	if pairing == 3 {
		had, oldTag = w.zzSeedTarget()
	} else if pairing != 4 && !zzBool("target_is_new") {
		for _, d := range w.all {
			if w.mans[d] || had[d] {
				continue
			}
			if !zzSmall && zzBool("blob_present") {
				had[d] = true
				tgtReg.PutBlob(tgtRepo, w.bytes[d])
			}
		}
		if zzBool("stale_tag") {
			stale := []byte(`{"schemaVersion":2,"mediaType":"application/vnd.oci.image.manifest.v1+json","config":{"mediaType":"application/vnd.oci.empty.v1+json","digest":"sha256:44136fa355b3678a1146ad16f7e8649e94fb4fc21fe77e8310c060f61caaff8a","size":2},"layers":[]}`)
			tgtReg.PutBlob(tgtRepo, []byte("{}"))
			oldTag = digest.Digest(tgtReg.PutManifest(tgtRepo, tgtTag, "application/vnd.oci.image.manifest.v1+json", stale))
		} else if !zzSmall && zzBool("already_complete") {
			w.zzLoadRepo(tgtReg, tgtRepo, tgtTag)
			if w.foreign != "" {
				tgtReg.PutBlob(tgtRepo, w.bytes[w.foreign])
			}
			oldTag = w.top.Digest
			for _, d := range w.all {
				had[d] = true
			}
		}
	}

	// monitors on the target registry
	tagWrites, afterTag, commits := 0, 0, 0
	calls := 0
	if tgtReg != nil {
		tgtReg.OnCommit = func(kind, repo, dg string, body []byte) {
			if repo != tgtRepo {
				zzFail("C03_copy_writes_only_to_the_target")
				return
			}
			commits++
			if tagWrites > 0 && kind != "tag" {
				afterTag++
			}
			switch kind {
			case "manifest":
				zzReach("manifest_written")
				zzAssert(tgtReg.Repo(repo).RefsPresent(body), "C04_children_before_parents")
			case "tag":
				if dg == tgtTag+"="+w.top.Digest.String() {
					tagWrites++
				}
			}
		}
	}
	fault := func(ctx context.Context, req *reghttp.Req, ev *zzreg.Event) int {
		zzTurnSig(zzSigOf(ev)) // order of requests across the copy goroutines, repeated by the native twin
		calls++
		if calls-1 == failAt {
			// what the client sees once reghttp has given up on the request
			return []int{500, -1, 404}[zzInt("fault_kind", 0, 1+zzTier())]
		}
		return 0
	}
	ra.Before, rb.Before = fault, fault
	srcRead := map[string]int{}
	zzos.Cur.ReadObserver = func(name string, n int) {
		if strings.HasPrefix(name, zzSrc+"/blobs/") && n > 0 {
			srcRead[strings.TrimPrefix(name, zzSrc+"/blobs/sha256/")]++
		}
	}
	zzos.Cur.Observer = func(op zzos.Op) {
		if !strings.HasPrefix(op.Path, zzTgt) || pairing != 3 {
			zzFail("C03_copy_writes_only_to_the_target")
		}
	}

	// an explicit (never used) transport keeps host set-up away from net/http's defaults
	rc := New(WithRegOpts(reg.WithTransport(&http.Transport{})), WithSlog(slog.New(slog.NewTextHandler(io.Discard, nil))))
	var copyOpts []ImageOpts
	if includeExternal {
		copyOpts = append(copyOpts, ImageWithIncludeExternal())
	}
	err := rc.ImageCopy(context.Background(), rSrc, rTgt, copyOpts...)
	ra.Before, rb.Before, ra.OnCommit, rb.OnCommit = nil, nil, nil, nil
	zzos.Cur.Observer, zzos.Cur.ReadObserver = nil, nil
	zzReach("copy_returned")

	// where the target tag points now
	var now digest.Digest
	if pairing == 3 {
		now = zzTagOf(zzTgt)
	} else {
		now = digest.Digest(tgtReg.Repo(tgtRepo).Tags[tgtTag])
	}
	if tgtReg != nil {
		// whatever is stored at the target is a set of complete images
		rp := tgtReg.Repo(tgtRepo)
		for _, b := range rp.Manifests {
			zzAssert(rp.RefsPresent(b), "C04_target_manifests_are_complete")
		}
	}
	if err != nil {
		zzReach("copy_failed")
		// a layout cannot fetch a foreign layer it does not hold from its external location
		unobtainable := includeExternal && w.notHosted[w.foreign] && !srcIsReg
		zzAssert((failAt >= 0 && failAt < calls) || unobtainable, "C03_copy_without_faults_succeeds")
		zzAssert(now == oldTag || (now == w.top.Digest && tagWrites > 0), "C04_failed_copy_leaves_tag_alone")
		return
	}
	zzReach("copy_succeeded")
	zzAssert(now == w.top.Digest, "C03_target_tag_is_source_digest")
	for _, d := range w.all {
		var got []byte
		var ok bool
		if d == w.foreign && !w.plain[d] && (!includeExternal || w.notHosted[d]) {
			continue // a foreign layer is required only on request and only when the source hosts it
		}
		if d == w.foreign {
			zzReach("foreign_layer_required_at_target")
		}
		if pairing == 3 {
			got, ok = zzos.Cur.Data(zzBlobFile(zzTgt, d))
		} else if w.mans[d] {
			got, ok = tgtReg.Repo(tgtRepo).Manifests[d.String()]
		} else {
			got, ok = tgtReg.Repo(tgtRepo).Blobs[d.String()]
		}
		zzAssert(ok && string(got) == string(w.bytes[d]), "C03_closure_present_and_identical")
	}
	if tgtReg != nil {
		zzAssert(tagWrites <= 1, "C04_tag_written_once")
		zzAssert(afterTag == 0, "C04_tag_written_last")
	}
	if failAt >= 0 && failAt < calls {
		return // a fault was absorbed: the transfer counts below assume a clean run
	}
	// C14: transfers
	srcGets := map[string]int{}
	uploads, mounts, manifestPuts := 0, 0, 0
	for _, r := range []*zzreg.Registry{ra, rb} {
		for _, ev := range r.Log {
			switch {
			case ev.Kind == "blob" && ev.Method == "GET" && srcIsReg && ev.Repo == "src":
				srcGets[ev.Ref]++
			case ev.Kind == "upload" && ev.Method == "PUT" && ev.Status == 201:
				uploads++
			case ev.Kind == "upload" && ev.Method == "POST" && ev.Status == 201:
				mounts++
			case ev.Kind == "manifest" && ev.Method == "PUT" && ev.Status == 201:
				manifestPuts++
			}
		}
	}
	for _, d := range w.all {
		if w.mans[d] {
			continue
		}
		n := srcGets[d.String()] + srcRead[d.Encoded()]
		if d == w.foreign {
			continue
		}
		zzAssert(n <= 1, "C14_each_blob_transferred_at_most_once")
		if had[d] {
			zzAssert(n == 0, "C14_existing_blob_not_transferred")
		}
		if pairing == 1 && ra.Mount {
			zzReach("mount_granted")
			zzAssert(n == 0, "C14_mount_instead_of_transfer")
		}
	}
	if pairing == 4 {
		zzReach("retagged")
		zzAssert(uploads == 0 && mounts == 0 && len(srcGets) == 0, "C14_retag_moves_no_blobs")
		zzAssert(manifestPuts == 1, "C14_retag_writes_one_manifest")
	}
	if oldTag == w.top.Digest {
		zzReach("target_already_identical")
		zzAssert(commits == 0, "C14_identical_target_written_nothing")
	}
	_ = json.Valid
}

// Copy options between two registries: forced recursion onto a target whose
// tag already equals the source but whose content is incomplete, referrers
// (source and target each with the referrers API or the fallback tag) and
// digest tags.
func ZZC03_copy_options() {
	zzSmall = true
	w := zzBuildWorld()
	ra, rb := zzreg.New(zzHostA), zzreg.New(zzHostB)
	ra.ValidateRefs, rb.ValidateRefs = false, false
	net := &zzNet{regs: map[string]*zzreg.Registry{zzHostA: ra, zzHostB: rb}, ext: map[string][]byte{}}
	reghttp.ZZHook_Client_Do = net.do
	w.zzLoadRepo(rb, "src", "v1")
	rb.ReferrersAPI = zzBool("source_has_referrers_api")
	ra.ReferrersAPI = zzBool("target_has_referrers_api")
	rSrc, _ := ref.New(zzHostB + "/src:v1")
	rTgt, _ := ref.New(zzHostA + "/tgt:v1")

	// referrers may live in a repository of their own (ImageWithReferrerSrc / ImageWithReferrerTgt)
	extRef := zzBool("referrers_in_another_repository")
	refRepo, refTgtRepo := "src", "tgt"
	if extRef {
		refRepo, refTgtRepo = "refs", "refstgt"
	}
	// an artifact that names the image as its subject, and a digest tag for it
	sigBlob := []byte("signature")
	sigDig := rb.PutBlob(refRepo, sigBlob)
	emptyDig := rb.PutBlob(refRepo, []byte("{}"))
	art, _ := json.Marshal(map[string]interface{}{
		"schemaVersion": 2, "mediaType": "application/vnd.oci.image.manifest.v1+json", "artifactType": "application/example.sig",
		"config":  map[string]interface{}{"mediaType": "application/vnd.oci.empty.v1+json", "digest": emptyDig, "size": 2},
		"layers":  []interface{}{map[string]interface{}{"mediaType": "application/octet-stream", "digest": sigDig, "size": len(sigBlob)}},
		"subject": map[string]interface{}{"mediaType": w.top.MediaType, "digest": w.top.Digest.String(), "size": w.top.Size},
	})
	artDig := rb.PutManifest(refRepo, "", "application/vnd.oci.image.manifest.v1+json", art)
	if extRef {
		// the digest tag below names the artifact in the image's own repository
		rb.PutBlob("src", sigBlob)
		rb.PutBlob("src", []byte("{}"))
		rb.PutManifest("src", "", "application/vnd.oci.image.manifest.v1+json", art)
	}
	fallbackTag := "sha256-" + w.top.Digest.Encoded()
	if !rb.ReferrersAPI {
		idx, _ := json.Marshal(map[string]interface{}{
			"schemaVersion": 2, "mediaType": "application/vnd.oci.image.index.v1+json",
			"manifests": []interface{}{map[string]interface{}{"mediaType": "application/vnd.oci.image.manifest.v1+json", "digest": artDig, "size": len(art), "artifactType": "application/example.sig"}},
		})
		rb.PutManifest(refRepo, fallbackTag, "application/vnd.oci.image.index.v1+json", idx)
	}
	digestTag := fallbackTag + ".sig"
	rb.Repo("src").Tags[digestTag] = artDig
	// with the referrers elsewhere, the image's own repository may carry a digest tag of exactly
	// the name the other repository uses as its fallback tag
	plainDT := extRef && zzBool("own_digest_tag_named_like_the_fallback_tag")
	xDig := ""
	if plainDT {
		// a target that keeps referrers in a fallback tag of that very name would find a manifest it cannot
		// merge into (the name is reserved there): the case is drawn for targets with the referrers API
		zzAssume(ra.ReferrersAPI)
		// (a plain manifest without a subject, so that its copy does not itself touch any referrers list)
		rb.PutBlob("src", []byte("{}"))
		x := []byte(`{"schemaVersion":2,"mediaType":"application/vnd.oci.image.manifest.v1+json","config":{"mediaType":"application/vnd.oci.empty.v1+json","digest":"` + emptyDig + `","size":2},"layers":[]}`)
		xDig = rb.PutManifest("src", fallbackTag, "application/vnd.oci.image.manifest.v1+json", x)
	}

	// options and target pre-state
	recursive, withRef, withDT := zzBool("force_recursive"), zzBool("referrers"), zzBool("digest_tags")
	var opts []ImageOpts
	if recursive {
		opts = append(opts, ImageWithForceRecursive())
	}
	if withRef {
		opts = append(opts, ImageWithReferrers())
	}
	if withDT {
		opts = append(opts, ImageWithDigestTags())
	}
	if extRef {
		rs, _ := ref.New(zzHostB + "/refs")
		rt, _ := ref.New(zzHostA + "/refstgt")
		opts = append(opts, ImageWithReferrerSrc(rs), ImageWithReferrerTgt(rt))
	}
	incomplete := zzBool("target_equal_but_incomplete")
	if extRef {
		zzAssume(!recursive && !incomplete && withRef && withDT) // one complication at a time
	}
	if incomplete {
		// the tag already names the source digest, manifests are there, one blob is missing
		for _, d := range w.all {
			if w.mans[d] {
				mt := "application/vnd.oci.image.manifest.v1+json"
				if strings.Contains(string(w.bytes[d]), `"manifests"`) {
					mt = "application/vnd.oci.image.index.v1+json"
				}
				ra.PutManifest("tgt", "", mt, w.bytes[d])
			}
		}
		ra.Repo("tgt").Tags["v1"] = w.top.Digest.String()
		miss := zzInt("missing_blob", 0, len(w.all)-1)
		for i, d := range w.all {
			if !w.mans[d] && i != miss {
				ra.PutBlob("tgt", w.bytes[d])
			}
		}
	}
	ra.OnCommit = func(kind, repo, dg string, body []byte) {
		if repo != "tgt" && !(extRef && repo == "refstgt") {
			zzFail("C03_copy_writes_only_to_the_target")
		}
		if kind == "manifest" {
			zzAssert(ra.Repo(repo).RefsPresent(body), "C04_children_before_parents")
		}
	}
	rc := New(WithRegOpts(reg.WithTransport(&http.Transport{})), WithSlog(slog.New(slog.NewTextHandler(io.Discard, nil))))
	ctx := context.Background()
	err := rc.ImageCopy(ctx, rSrc, rTgt, opts...)
	ra.OnCommit = nil
	zzAssert(err == nil, "C03_copy_without_faults_succeeds")
	if err != nil {
		return
	}
	zzReach("options_copy_succeeded")
	tgt := ra.Repo("tgt")
	zzAssert(tgt.Tags["v1"] == w.top.Digest.String(), "C03_target_tag_is_source_digest")
	if !incomplete || recursive {
		// a target that already equals the source is trusted unless recursion is forced
		if incomplete {
			zzReach("incomplete_target_completed")
		}
		for _, d := range w.all {
			var got []byte
			var ok bool
			if w.mans[d] {
				got, ok = tgt.Manifests[d.String()]
			} else {
				got, ok = tgt.Blobs[d.String()]
			}
			zzAssert(ok && string(got) == string(w.bytes[d]), "C03_closure_present_and_identical")
		}
	}
	hasArtIn := func(rp *zzreg.Repo) bool {
		b, ok := rp.Manifests[artDig]
		_, ok1 := rp.Blobs[sigDig]
		_, ok2 := rp.Blobs[emptyDig]
		return ok && string(b) == string(art) && ok1 && ok2
	}
	hasArt := func() bool { return hasArtIn(tgt) }
	if withRef {
		zzReach("referrers_requested")
		zzAssert(hasArtIn(ra.Repo(refTgtRepo)), "C03_referrer_copied_with_its_content")
		rLst := rTgt
		if extRef {
			zzReach("referrers_copied_between_other_repositories")
			rLst, _ = ref.New(zzHostA + "/refstgt")
		}
		rl, lerr := rc.ReferrerList(ctx, rLst.SetDigest(w.top.Digest.String()))
		zzAssert(lerr == nil, "C03_referrers_listed_at_target")
		n := 0
		for _, d := range rl.Descriptors {
			if d.Digest.String() == artDig {
				n++
			}
		}
		zzAssert(n == 1, "C03_referrers_listed_at_target")
	}
	if withDT {
		zzReach("digest_tags_requested")
		zzAssert(tgt.Tags[digestTag] == artDig, "C03_digest_tag_copied")
		zzAssert(hasArt(), "C03_digest_tag_content_copied")
		if plainDT {
			zzReach("own_digest_tag_beside_external_referrers")
			zzAssert(tgt.Tags[fallbackTag] == xDig, "C03_digest_tag_copied")
			_, okx := tgt.Manifests[xDig]
			zzAssert(okx, "C03_digest_tag_content_copied")
		}
	}
}

// zzSharedWorld: an index of two platform images that share their only layer.
var zzSharedBlobEntry bool // the index lists the shared layer itself as a blob-typed entry beside one image

func zzSharedWorld() *zzWorld {
	zzos.Reset()
	w := &zzWorld{bytes: map[digest.Digest][]byte{}, mans: map[digest.Digest]bool{}, plain: map[digest.Digest]bool{}}
	w.pool = append(w.pool, w.put([]byte("l0"), "application/vnd.oci.image.layer.v1.tar+gzip", false))
	zzSmall = true
	var entries []string
	nImg := 2
	if zzSharedBlobEntry {
		nImg = 1
	}
	for i := 0; i < nImg; i++ {
		d := w.image(i)
		entries = append(entries, `{"mediaType":"application/vnd.oci.image.manifest.v1+json","digest":"`+d.Digest.String()+`","size":`+strconv.Itoa(int(d.Size))+`}`)
	}
	if zzSharedBlobEntry {
		// (the layout buildkit writes for a registry cache: the index names layers directly)
		e := `{"mediaType":"application/vnd.oci.image.layer.v1.tar+gzip","digest":"` + w.pool[0].Digest.String() + `","size":2}`
		if zzBool("blob_entry_first") {
			entries = append([]string{e}, entries...)
		} else {
			entries = append(entries, e)
		}
	}
	b := []byte(`{"schemaVersion":2,"mediaType":"application/vnd.oci.image.index.v1+json","manifests":[` + strings.Join(entries, ",") + `]}`)
	w.top = w.put(b, "application/vnd.oci.image.index.v1+json", true)
	w.all = append(w.all, w.top.Digest)
	zzos.Cur.Put(zzSrc+"/oci-layout", []byte(`{"imageLayoutVersion":"1.0.0"}`))
	zzos.Cur.Put(zzSrc+"/index.json", []byte(`{"schemaVersion":2,"mediaType":"application/vnd.oci.image.index.v1+json","manifests":[{"mediaType":"application/vnd.oci.image.index.v1+json","digest":"`+w.top.Digest.String()+`","size":`+strconv.Itoa(len(b))+`,"annotations":{"org.opencontainers.image.ref.name":"v1"}}]}`))
	return w
}

func zzSigOf(ev *zzreg.Event) int {
	h := 7
	for _, s := range []string{ev.Method, ev.Repo, ev.Kind, ev.Ref, ev.Query} {
		for i := 0; i < len(s); i++ {
			h = (h*31 + int(s[i])) % 1000003
		}
		h = (h*31 + 1) % 1000003
	}
	return h
}

// The copy goroutines of ImageCopy under context-bounded request-level
// interleavings: an index of two images sharing a layer is copied to an empty
// registry repository; at every request another runnable copy goroutine may be
// served first (budget of 1-2 such switches). Ordering, completeness and
// transfer accounting must hold on every such schedule.
func ZZC03_copy_schedules() { zzCopySchedules() }

// The same for an index that lists a layer directly as a blob-typed entry next
// to an image using that layer (the shape of a buildkit registry cache).
func ZZC03_copy_schedules_blob_entry() {
	zzSharedBlobEntry = true
	zzCopySchedules()
	zzSharedBlobEntry = false
}

func zzCopySchedules() {
	w := zzSharedWorld()
	ra, rb := zzreg.New(zzHostA), zzreg.New(zzHostB)
	ra.ValidateRefs, rb.ValidateRefs = false, false
	net := &zzNet{regs: map[string]*zzreg.Registry{zzHostA: ra, zzHostB: rb}, ext: map[string][]byte{}}
	reghttp.ZZHook_Client_Do = net.do
	var rSrc ref.Ref
	srcIsReg := false
	rTgt, _ := ref.New(zzHostA + "/tgt:v1")
	switch zzInt("pairing", 0, 2) {
	case 0:
		rSrc, _ = ref.New("ocidir://" + zzSrc + ":v1")
	case 1:
		w.zzLoadRepo(ra, "src", "v1")
		ra.Mount = zzBool("mount_granted")
		rSrc, _ = ref.New(zzHostA + "/src:v1")
		srcIsReg = true
	case 2:
		w.zzLoadRepo(rb, "src", "v1")
		rSrc, _ = ref.New(zzHostB + "/src:v1")
		srcIsReg = true
	}
	tagWrites, afterTag := 0, 0
	ra.OnCommit = func(kind, repo, dg string, body []byte) {
		if repo != "tgt" {
			zzFail("C03_copy_writes_only_to_the_target")
			return
		}
		if tagWrites > 0 && kind != "tag" {
			afterTag++
		}
		switch kind {
		case "manifest":
			zzAssert(ra.Repo(repo).RefsPresent(body), "C04_children_before_parents")
		case "tag":
			tagWrites++
		}
	}
	zzTurnBudget(2 + zzTier())
	turn := func(ctx context.Context, req *reghttp.Req, ev *zzreg.Event) int {
		zzTurnSig(zzSigOf(ev))
		return 0
	}
	ra.Before, rb.Before = turn, turn
	srcRead := map[string]int{}
	zzos.Cur.ReadObserver = func(name string, n int) {
		if strings.HasPrefix(name, zzSrc+"/blobs/") && n > 0 {
			srcRead[strings.TrimPrefix(name, zzSrc+"/blobs/sha256/")]++
		}
	}
	rc := New(WithRegOpts(reg.WithTransport(&http.Transport{})), WithSlog(slog.New(slog.NewTextHandler(io.Discard, nil))))
	err := rc.ImageCopy(context.Background(), rSrc, rTgt)
	ra.Before, rb.Before, ra.OnCommit = nil, nil, nil
	zzos.Cur.ReadObserver = nil
	zzAssert(err == nil, "C03_copy_without_faults_succeeds")
	if err != nil {
		return
	}
	zzReach("scheduled_copy_succeeded")
	tgt := ra.Repo("tgt")
	zzAssert(tgt.Tags["v1"] == w.top.Digest.String(), "C03_target_tag_is_source_digest")
	for _, d := range w.all {
		var got []byte
		var ok bool
		if w.mans[d] {
			got, ok = tgt.Manifests[d.String()]
		} else {
			got, ok = tgt.Blobs[d.String()]
		}
		zzAssert(ok && string(got) == string(w.bytes[d]), "C03_closure_present_and_identical")
	}
	zzAssert(tagWrites == 1 && afterTag == 0, "C04_tag_written_last")
	srcGets, puts := map[string]int{}, map[string]int{}
	for _, r := range []*zzreg.Registry{ra, rb} {
		for _, ev := range r.Log {
			if ev.Kind == "blob" && ev.Method == "GET" && srcIsReg && ev.Repo == "src" {
				srcGets[ev.Ref]++
			}
			if ev.Kind == "upload" && ev.Method == "PUT" && ev.Status == 201 {
				puts[queryOf(ev.Query, "digest")]++
			}
		}
	}
	for _, d := range w.all {
		if w.mans[d] {
			continue
		}
		zzAssert(srcGets[d.String()]+srcRead[d.Encoded()] <= 1, "C14_each_blob_transferred_at_most_once")
		zzAssert(puts[d.String()] <= 1, "C14_each_blob_uploaded_at_most_once")
	}
}

func queryOf(raw, key string) string {
	for _, kv := range strings.Split(raw, "&") {
		if strings.HasPrefix(kv, key+"=") {
			return strings.Replace(kv[len(key)+1:], "%3A", ":", 1)
		}
	}
	return ""
}

// Cancellation (C04): the caller's context is cancelled at a symbolic request
// position of a copy between a registry and a layout (either direction) or two
// registries. Whatever the copy then reports, every manifest stored at the
// target is complete; a copy that reports an error has not moved the tag; a
// copy that reports success has delivered everything.
func ZZC03_copy_cancel() {
	zzSmall = true
	w := zzBuildWorld()
	ra, rb := zzreg.New(zzHostA), zzreg.New(zzHostB)
	ra.ValidateRefs, rb.ValidateRefs = false, false
	net := &zzNet{regs: map[string]*zzreg.Registry{zzHostA: ra, zzHostB: rb}, ext: map[string][]byte{}}
	reghttp.ZZHook_Client_Do = net.do
	var rSrc, rTgt ref.Ref
	toLayout := false
	switch zzInt("pairing", 0, 2) {
	case 0:
		rSrc, _ = ref.New("ocidir://" + zzSrc + ":v1")
		rTgt, _ = ref.New(zzHostA + "/tgt:v1")
	case 1:
		w.zzLoadRepo(rb, "src", "v1")
		rSrc, _ = ref.New(zzHostB + "/src:v1")
		rTgt, _ = ref.New(zzHostA + "/tgt:v1")
	case 2:
		w.zzLoadRepo(ra, "src", "v1")
		rSrc, _ = ref.New(zzHostA + "/src:v1")
		rTgt, _ = ref.New("ocidir://" + zzTgt + ":v1")
		toLayout = true
	}
	ctx, cancel := context.WithCancel(context.Background())
	defer cancel()
	cancelAt := zzInt("cancel_at", 0, 14+16*zzTier())
	calls := 0
	before := func(c context.Context, req *reghttp.Req, ev *zzreg.Event) int {
		zzTurnSig(zzSigOf(ev))
		if calls == cancelAt {
			zzReach("cancelled_midway")
			cancel()
		}
		calls++
		return 0
	}
	ra.Before, rb.Before = before, before
	ra.OnCommit = func(kind, repo, dg string, body []byte) {
		if kind == "manifest" {
			zzAssert(ra.Repo(repo).RefsPresent(body), "C04_children_before_parents")
		}
	}
	zzos.Cur.Observer = func(op zzos.Op) {
		if op.Kind == "rename" && strings.HasPrefix(op.Path2, zzTgt+"/blobs/") && w.mans[digest.Digest("sha256:"+op.Path2[strings.LastIndex(op.Path2, "/")+1:])] {
			data, _ := zzos.Cur.Data(op.Path)
			zzAssert(zzRefsPresent(zzTgt, data), "C04_children_before_parents")
		}
	}
	rc := New(WithRegOpts(reg.WithTransport(&http.Transport{})), WithSlog(slog.New(slog.NewTextHandler(io.Discard, nil))))
	err := rc.ImageCopy(ctx, rSrc, rTgt)
	ra.Before, rb.Before, ra.OnCommit = nil, nil, nil
	zzos.Cur.Observer = nil
	zzReach("cancel_copy_returned")
	var now digest.Digest
	if toLayout {
		now = zzTagOf(zzTgt)
	} else {
		now = digest.Digest(ra.Repo("tgt").Tags["v1"])
		rp := ra.Repo("tgt")
		for _, b := range rp.Manifests {
			zzAssert(rp.RefsPresent(b), "C04_target_manifests_are_complete")
		}
	}
	if err != nil {
		zzReach("cancel_copy_failed")
		zzAssert(now == "", "C04_failed_copy_leaves_tag_alone")
		return
	}
	zzReach("cancel_copy_succeeded")
	zzAssert(now == w.top.Digest, "C03_target_tag_is_source_digest")
	for _, d := range w.all {
		var got []byte
		var ok bool
		if toLayout {
			got, ok = zzos.Cur.Data(zzBlobFile(zzTgt, d))
		} else if w.mans[d] {
			got, ok = ra.Repo("tgt").Manifests[d.String()]
		} else {
			got, ok = ra.Repo("tgt").Blobs[d.String()]
		}
		zzAssert(ok && string(got) == string(w.bytes[d]), "C03_closure_present_and_identical")
	}
}

// Referrer filters: the image has two artifacts of different types (one of them
// annotated). The copy is asked for referrers with a symbolic list of 1-2
// filters (artifact type a / artifact type b / annotation / everything). Every
// referrer selected by at least one of the filters arrives with its content and
// is listed at the target exactly once.
func ZZC03_copy_referrer_filters() {
	zzSmall = true
	zzSingleImageWorld = true
	w := zzBuildWorld()
	zzSingleImageWorld = false
	ra, rb := zzreg.New(zzHostA), zzreg.New(zzHostB)
	ra.ValidateRefs, rb.ValidateRefs = false, false
	net := &zzNet{regs: map[string]*zzreg.Registry{zzHostA: ra, zzHostB: rb}, ext: map[string][]byte{}}
	reghttp.ZZHook_Client_Do = net.do
	w.zzLoadRepo(rb, "src", "v1")
	rb.ReferrersAPI = zzBool("source_has_referrers_api")
	ra.ReferrersAPI = zzBool("target_has_referrers_api")
	rSrc, _ := ref.New(zzHostB + "/src:v1")
	rTgt, _ := ref.New(zzHostA + "/tgt:v1")
	emptyDig := rb.PutBlob("src", []byte("{}"))
	types := []string{"application/example.sig", "application/example.sbom"}
	payload := [][]byte{[]byte("signature"), []byte("bill of materials")}
	annot := []map[string]string{nil, {"vnd.example.kind": "x"}}
	var arts [][]byte
	var artDigs, blobDigs []string
	var entries []interface{}
	for i := range types {
		bd := rb.PutBlob("src", payload[i])
		m := map[string]interface{}{
			"schemaVersion": 2, "mediaType": "application/vnd.oci.image.manifest.v1+json", "artifactType": types[i],
			"config":  map[string]interface{}{"mediaType": "application/vnd.oci.empty.v1+json", "digest": emptyDig, "size": 2},
			"layers":  []interface{}{map[string]interface{}{"mediaType": "application/octet-stream", "digest": bd, "size": len(payload[i])}},
			"subject": map[string]interface{}{"mediaType": w.top.MediaType, "digest": w.top.Digest.String(), "size": w.top.Size},
		}
		e := map[string]interface{}{"mediaType": "application/vnd.oci.image.manifest.v1+json", "artifactType": types[i]}
		if annot[i] != nil {
			m["annotations"] = annot[i]
			e["annotations"] = annot[i]
		}
		art, _ := json.Marshal(m)
		ad := rb.PutManifest("src", "", "application/vnd.oci.image.manifest.v1+json", art)
		e["digest"], e["size"] = ad, len(art)
		arts, artDigs, blobDigs, entries = append(arts, art), append(artDigs, ad), append(blobDigs, bd), append(entries, e)
	}
	if !rb.ReferrersAPI {
		idx, _ := json.Marshal(map[string]interface{}{
			"schemaVersion": 2, "mediaType": "application/vnd.oci.image.index.v1+json", "manifests": entries,
		})
		rb.PutManifest("src", "sha256-"+w.top.Digest.Encoded(), "application/vnd.oci.image.index.v1+json", idx)
	}
	// filters: 0 = type a, 1 = type b, 2 = the annotation (only b has it), 3 = no restriction
	nf := zzInt("filters", 1, 2)
	want := []bool{false, false}
	var opts []ImageOpts
	for k := 0; k < nf; k++ {
		switch zzInt("filter_kind", 0, 3) {
		case 0:
			opts = append(opts, ImageWithReferrers(scheme.WithReferrerMatchOpt(descriptor.MatchOpt{ArtifactType: types[0]})))
			want[0] = true
		case 1:
			opts = append(opts, ImageWithReferrers(scheme.WithReferrerMatchOpt(descriptor.MatchOpt{ArtifactType: types[1]})))
			want[1] = true
		case 2:
			opts = append(opts, ImageWithReferrers(scheme.WithReferrerMatchOpt(descriptor.MatchOpt{Annotations: map[string]string{"vnd.example.kind": "x"}})))
			want[1] = true
		default:
			opts = append(opts, ImageWithReferrers())
			want[0], want[1] = true, true
		}
	}
	ra.OnCommit = func(kind, repo, dg string, body []byte) {
		if repo != "tgt" {
			zzFail("C03_copy_writes_only_to_the_target")
		}
		if kind == "manifest" {
			zzAssert(ra.Repo(repo).RefsPresent(body), "C04_children_before_parents")
		}
	}
	rc := New(WithRegOpts(reg.WithTransport(&http.Transport{})), WithSlog(slog.New(slog.NewTextHandler(io.Discard, nil))))
	ctx := context.Background()
	err := rc.ImageCopy(ctx, rSrc, rTgt, opts...)
	ra.OnCommit = nil
	zzAssert(err == nil, "C03_copy_without_faults_succeeds")
	if err != nil {
		return
	}
	zzReach("filtered_copy_succeeded")
	tgt := ra.Repo("tgt")
	zzAssert(tgt.Tags["v1"] == w.top.Digest.String(), "C03_target_tag_is_source_digest")
	rl, lerr := rc.ReferrerList(ctx, rTgt.SetDigest(w.top.Digest.String()))
	zzAssert(lerr == nil, "C03_referrers_listed_at_target")
	for i := range types {
		if !want[i] {
			continue
		}
		zzReach("referrer_selected")
		b, ok := tgt.Manifests[artDigs[i]]
		_, ok1 := tgt.Blobs[blobDigs[i]]
		_, ok2 := tgt.Blobs[emptyDig]
		zzAssert(ok && string(b) == string(arts[i]) && ok1 && ok2, "C03_selected_referrer_copied_with_its_content")
		n := 0
		for _, d := range rl.Descriptors {
			if d.Digest.String() == artDigs[i] {
				n++
			}
		}
		zzAssert(n == 1, "C03_selected_referrer_listed_once_at_target")
	}
}
