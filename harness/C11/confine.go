//zz:pkg internal/reghttp
package reghttp

import (
	"encoding/base64"
	"io"
	"log/slog"
	"net/http"
	"strings"

	"github.com/regclient/regclient/config"
	"github.com/regclient/regclient/internal/auth"
)

const (
	zzRegHost = "registry.example"
	zzUser    = "alice"
	zzPass    = "s3cr3t-pass"
	zzIDTok   = "identity-token-xyz"
)

var zzHosts = []string{zzRegHost, "cdn.example", "mirror.example", "auth.example"}

// zzNet is the model network: it records every request (destination host,
// Authorization header, body) and answers token requests with a bearer token.
type zzNet struct {
	reqs []*http.Request
}

func (n *zzNet) RoundTrip(req *http.Request) (*http.Response, error) {
	n.reqs = append(n.reqs, req)
	body := `{"token":"bearer-token-123","expires_in":300}`
	return &http.Response{StatusCode: 200, Status: "200 OK", Header: http.Header{"Content-Type": {"application/json"}},
		Body: io.NopCloser(strings.NewReader(body)), Request: req}, nil
}

func zzSecretIn(s string) bool {
	basic := base64.StdEncoding.EncodeToString([]byte(zzUser + ":" + zzPass))
	return strings.Contains(s, basic) || strings.Contains(s, zzPass) || strings.Contains(s, zzIDTok)
}

func zzRegistryHost(net *zzNet) *clientHost {
	return &clientHost{
		config:     &config.Host{Name: zzRegHost, Hostname: zzRegHost, User: zzUser, Pass: zzPass},
		httpClient: &http.Client{Transport: net},
		auth:       map[string]*auth.Auth{},
		slog:       slog.New(slog.NewTextHandler(io.Discard, nil)),
	}
}

func zzResp401(host, challenge string) *http.Response {
	req, _ := http.NewRequest("GET", "https://"+host+"/v2/", nil)
	return &http.Response{StatusCode: 401, Header: http.Header{"Www-Authenticate": {challenge}}, Request: req}
}

// Credentials configured for the registry are attached only to requests for
// the registry's own host - never to a redirect target, mirror or external
// URL host, even when that host answers 401 with a challenge of its own - and
// a token request carries them only when the registry itself named the realm.
func ZZC11_confinement() {
	net := &zzNet{}
	ch := zzRegistryHost(net)
	a := ch.getAuth("")
	challenger := zzHosts[zzInt("challenger", 0, len(zzHosts)-1)]
	var challenge string
	realmHost := zzHosts[zzInt("realm_host", 0, len(zzHosts)-1)]
	bearer := zzBool("bearer")
	if bearer {
		challenge = `Bearer realm="https://` + realmHost + `/token",service="svc",scope="repository:repo:pull"`
	} else {
		challenge = `Basic realm="r"`
	}
	err := a.HandleResponse(zzResp401(challenger, challenge))
	zzReach("challenge_handled")
	_ = err
	// the client now sends a request to some host (the registry, the challenger, or a third one)
	dest := zzHosts[zzInt("dest", 0, len(zzHosts)-1)]
	req, _ := http.NewRequest("GET", "https://"+dest+"/v2/repo/blobs/sha256:abc", nil)
	_ = a.UpdateRequest(req)
	ah := req.Header.Get("Authorization")
	if ah != "" {
		zzReach("authorization_attached")
	}
	if dest != zzRegHost {
		if dest == challenger {
			// the destination itself sent the challenge (redirect target / external URL host answering 401)
			zzAssert(!zzSecretIn(ah), "registry_credentials_not_sent_to_a_foreign_host_that_challenged")
		} else {
			zzAssert(!zzSecretIn(ah), "registry_credentials_not_sent_to_a_host_that_never_challenged")
		}
		if bearer && challenger != zzRegHost {
			zzAssert(!strings.Contains(ah, "bearer-token-123") || dest == challenger, "foreign_token_only_to_its_issuer_host")
		}
	}
	// token requests: the registry's credentials go to a realm only if the registry named it
	for _, tr := range net.reqs {
		zzReach("token_request_seen")
		sent := zzSecretIn(tr.Header.Get("Authorization"))
		if tr.Body != nil {
			b, _ := io.ReadAll(tr.Body)
			sent = sent || zzSecretIn(string(b))
		}
		sent = sent || zzSecretIn(tr.URL.RawQuery)
		if challenger != zzRegHost && tr.URL.Host != zzRegHost {
			zzAssert(!sent, "registry_credentials_not_sent_to_a_realm_named_by_another_host")
		}
		zzAssert(tr.URL.Scheme == "https" || !sent, "credentials_not_sent_in_clear_text")
	}
}
