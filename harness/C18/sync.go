//zz:pkg cmd/regsync
//zz:subst scheme/ocidir os
//zz:hook pkg/template String
package main

import (
	"context"
	"encoding/json"
	"io"
	"log/slog"
	"path"
	"regexp"
	"strings"

	"github.com/opencontainers/go-digest"

	"github.com/regclient/regclient"
	"github.com/regclient/regclient/internal/pqueue"
	zzos "github.com/regclient/regclient/internal/zzos"
	"github.com/regclient/regclient/pkg/template"
	"github.com/regclient/regclient/types/descriptor"
	"github.com/regclient/regclient/types/mediatype"
	v1 "github.com/regclient/regclient/types/oci/v1"
)

// ---- allow / deny algebra on symbolic tags ---------------------------------

var zzPatterns = []string{"a.*", ".*b", "[ab]", "a", "b+", ".?c"}

// filterList against its specification: keep t, in order, iff (no allow list
// or some allow pattern matches t anchored) and no deny pattern matches t
// anchored. Tags are symbolic one- and two-letter strings.
func ZZC18_filter() {
	n := zzInt("n_tags", 0, 2) // tags are filtered independently of each other; two suffice to observe order
	var in []string
	for i := 0; i < n; i++ {
		in = append(in, zzStringOf("tag", zzInt("tag_len", 1, 2), "a-c"))
	}
	var ad AllowDeny
	nAllow, nDeny := zzInt("n_allow", 0, 1+zzTier()), zzInt("n_deny", 0, 1+zzTier())
	for i := 0; i < nAllow; i++ {
		ad.Allow = append(ad.Allow, zzPatterns[zzInt("allow", 0, 3+2*zzTier())])
	}
	for i := 0; i < nDeny; i++ {
		ad.Deny = append(ad.Deny, zzPatterns[zzInt("deny", 0, 3+2*zzTier())])
	}
	// filterList may reuse its input slice: judge against a copy
	orig := append([]string{}, in...)
	out, err := filterList(ad, in)
	in = orig
	zzAssert(err == nil, "filter_succeeds")
	zzReach("filtered")
	var want []string
	for _, t := range in {
		ok := len(ad.Allow) == 0
		for _, f := range ad.Allow {
			if m, _ := regexp.MatchString("^"+f+"$", t); m {
				ok = true
			}
		}
		for _, f := range ad.Deny {
			if m, _ := regexp.MatchString("^"+f+"$", t); m {
				ok = false
			}
		}
		if ok {
			want = append(want, t)
		}
	}
	zzAssert(len(out) == len(want), "filter_selects_exactly_the_specified_tags")
	for i := range want {
		if i < len(out) {
			zzAssert(out[i] == want[i], "filter_keeps_order_and_values")
		}
	}
	if len(want) > 0 && len(want) < len(in) {
		zzReach("filter_partial")
	}
}

// ---- one repository sync over layouts --------------------------------------

const zzS, zzT = "/src", "/tgt"

func zzBlob18(root string, b []byte) descriptor.Descriptor {
	d := digest.FromBytes(b)
	zzos.Cur.Put(path.Join(root, "blobs", d.Algorithm().String(), d.Encoded()), b)
	return descriptor.Descriptor{Digest: d, Size: int64(len(b))}
}

func zzImage18(root string, id int) descriptor.Descriptor {
	cfg := zzBlob18(root, []byte(`{"architecture":"amd64","os":"linux","id":`+string(rune('0'+id))+`}`))
	cfg.MediaType = mediatype.OCI1ImageConfig
	l := zzBlob18(root, []byte{'l', byte('0' + id)})
	l.MediaType = mediatype.OCI1LayerGzip
	mb, _ := json.Marshal(v1.Manifest{Versioned: v1.ManifestSchemaVersion, MediaType: mediatype.OCI1Manifest, Config: cfg, Layers: []descriptor.Descriptor{l}})
	m := zzBlob18(root, mb)
	m.MediaType = mediatype.OCI1Manifest
	return m
}

func zzLayout18(root string, tags map[string]descriptor.Descriptor, order []string) {
	idx := v1.Index{Versioned: v1.IndexSchemaVersion, MediaType: mediatype.OCI1ManifestList, Manifests: []descriptor.Descriptor{}}
	for _, t := range order {
		d := tags[t]
		d.Annotations = map[string]string{"org.opencontainers.image.ref.name": t}
		idx.Manifests = append(idx.Manifests, d)
	}
	b, _ := json.Marshal(idx)
	zzos.Cur.Put(root+"/oci-layout", []byte(`{"imageLayoutVersion":"1.0.0"}`))
	zzos.Cur.Put(root+"/index.json", b)
}

func zzTags18(root string) map[string]digest.Digest {
	out := map[string]digest.Digest{}
	b, ok := zzos.Cur.Data(root + "/index.json")
	if !ok {
		return out
	}
	var idx v1.Index
	if json.Unmarshal(b, &idx) != nil {
		return out
	}
	for _, e := range idx.Manifests {
		if t, ok := e.Annotations["org.opencontainers.image.ref.name"]; ok {
			out[t] = e.Digest
		}
	}
	return out
}

// A repository entry with allow/deny filters, action sync / missing / check,
// optional backup name: selected tags end up with the source digest, nothing
// else at the target moves, a replaced tag is available under the backup name
// first, and check writes nothing.
func ZZC18_repo_sync() {
	zzos.Reset()
	// source: tags a, ab, b, c over two images
	i0, i1 := zzImage18(zzS, 0), zzImage18(zzS, 1)
	src := map[string]descriptor.Descriptor{"a": i0, "ab": i1, "b": i0, "c": i1}
	srcOrder := []string{"a", "ab", "b", "c"}
	zzLayout18(zzS, src, srcOrder)
	// target: symbolic pre-state; "zz" has no source counterpart
	t2 := zzImage18(zzT, 2)
	tgt := map[string]descriptor.Descriptor{"zz": t2}
	tgtOrder := []string{"zz"}
	for _, t := range srcOrder {
		pre := 0
		if t == "a" || t == "b" || zzTier() > 0 {
			pre = zzInt("target_has", 0, 2)
		}
		switch pre {
		case 1: // stale
			tgt[t] = t2
			tgtOrder = append(tgtOrder, t)
		case 2: // already equal (content present)
			d := zzImage18(zzT, map[digest.Digest]int{i0.Digest: 0, i1.Digest: 1}[src[t].Digest])
			tgt[t] = d
			tgtOrder = append(tgtOrder, t)
		}
	}
	zzLayout18(zzT, tgt, tgtOrder)
	before := zzTags18(zzT)

	var s ConfigSync
	s.Source, s.Target, s.Type = "ocidir://"+zzS, "ocidir://"+zzT, "repository"
	s.MediaTypes = defaultMediaTypes
	if zzBool("has_allow") {
		s.Tags.Allow = []string{zzPatterns[zzInt("allow", 0, 2+3*zzTier())]}
	}
	if zzBool("has_deny") {
		s.Tags.Deny = []string{zzPatterns[zzInt("deny", 0, 2+3*zzTier())]}
	}
	// options that make processRef refresh an image even when the target already matches
	on := true
	switch zzInt("refresh_option", 0, 3) {
	case 1:
		s.Referrers = &on
	case 2:
		s.DigestTags = &on
	case 3:
		s.ForceRecursive = &on
	}
	backup := zzBool("backup")
	if backup {
		s.Backup = "bk-{{.Ref.Tag}}"
		template.ZZHook_String = func(tmpl string, data any, opts ...template.Opt) (string, error) {
			// the template engine is not modelled: expand the fixed template by hand
			if d, ok := data.(struct {
				Ref  interface{ CommonName() string }
				Step string
				Sync ConfigSync
			}); ok {
				_ = d
			}
			return zzBackupName(data), nil
		}
	}
	action := []actionType{actionCopy, actionMissing, actionCheck}[zzInt("action", 0, 2)]
	opts := &rootOpts{
		rc:       regclient.New(),
		log:      slog.New(slog.NewTextHandler(io.Discard, nil)),
		conf:     &Config{},
		throttle: pqueue.New(pqueue.Opts[throttle]{Max: 1}),
	}
	writes := 0
	zzos.Cur.Observer = func(op zzos.Op) {
		if strings.HasPrefix(op.Path, zzS) {
			zzFail("sync_never_writes_to_the_source")
		}
		writes++
	}
	err := opts.processRepo(context.Background(), s, s.Source, s.Target, action)
	zzos.Cur.Observer = nil
	zzAssert(err == nil, "sync_succeeds")
	zzReach("synced")
	after := zzTags18(zzT)
	selected := func(t string) bool {
		ok := len(s.Tags.Allow) == 0
		for _, f := range s.Tags.Allow {
			if m, _ := regexp.MatchString("^"+f+"$", t); m {
				ok = true
			}
		}
		for _, f := range s.Tags.Deny {
			if m, _ := regexp.MatchString("^"+f+"$", t); m {
				ok = false
			}
		}
		return ok
	}
	if action == actionCheck {
		zzReach("checked")
		zzAssert(writes == 0, "check_writes_nothing")
	}
	for _, t := range srcOrder {
		old, had := before[t]
		switch {
		case !selected(t) || action == actionCheck:
			now, has := after[t]
			zzAssert(has == had && (!had || now == old), "unselected_tags_untouched")
		case action == actionMissing && had:
			zzAssert(after[t] == old, "missing_action_leaves_existing_tags")
		default:
			zzReach("tag_mirrored")
			zzAssert(after[t] == src[t].Digest, "selected_tag_has_source_digest")
			if backup && had && old != src[t].Digest {
				zzReach("backed_up")
				zzAssert(after["bk-"+t] == old, "previous_image_available_under_backup_name")
			}
		}
	}
	zzAssert(after["zz"] == before["zz"], "target_tags_without_source_untouched")
	for t := range after {
		known := t == "zz"
		for _, st := range srcOrder {
			if t == st || (backup && t == "bk-"+st) {
				known = true
			}
		}
		zzAssert(known, "no_unexpected_tags_created")
	}
}

// zzBackupName expands "bk-{{.Ref.Tag}}" for the data regsync passes.
func zzBackupName(data any) string {
	b, _ := json.Marshal(data)
	var d struct {
		Ref struct {
			Tag string
		}
	}
	_ = json.Unmarshal(b, &d)
	return "bk-" + d.Ref.Tag
}
