//zz:pkg cmd/regsync
//zz:subst scheme/ocidir os
//zz:hook pkg/template String
//zz:hook internal/reghttp Client.Do
//zz:use zzreg
package main

import (
	"context"
	"io"
	"log/slog"
	"net/http"
	"regexp"

	"github.com/regclient/regclient"
	"github.com/regclient/regclient/internal/pqueue"
	"github.com/regclient/regclient/internal/reghttp"
	"github.com/regclient/regclient/internal/zzreg"
	"github.com/regclient/regclient/scheme/reg"
)

var zzRepoPatterns = []string{"team/.*", ".*/app", "alpha/app", "nomatch", "[bt].*"}

// A "type: registry" entry: the source registry (zzreg) lists its
// repositories through a _catalog paged with a symbolic page size; a symbolic
// allow / deny filter selects repositories. After a run that reports success
// every tag of every selected repository is at the target with the source
// digest, nothing of an unselected repository is there, and what the target
// held before is unchanged.
func ZZC18_registry_sync() {
	src, tgt := zzreg.New("src.example"), zzreg.New("tgt.example")
	regs := map[string]*zzreg.Registry{"src.example": src, "tgt.example": tgt}
	reghttp.ZZHook_Client_Do = func(c *reghttp.Client, ctx context.Context, req *reghttp.Req) (*reghttp.Resp, error) {
		host := req.Host
		if req.DirectURL != nil && req.DirectURL.Host != "" {
			host = req.DirectURL.Host
		}
		return regs[host].Do(c, ctx, req)
	}
	src.RepoPage = zzInt("catalog_page", 0, 3)
	for k := 0; k <= 3; k++ {
		if src.RepoPage == k {
			src.RepoPage = k
			break
		}
	}
	// source content: one small image per tag
	type rt struct{ repo, tag string }
	content := []rt{{"alpha/app", "v1"}, {"beta/app", "v1"}, {"gamma/lib", "v1"}, {"team/app", "v1"}, {"team/app", "v2"}, {"team/db", "stable"}}
	digests := map[rt]string{}
	put := func(r *zzreg.Registry, repo, tag string, id byte) string {
		cfg := []byte(`{"architecture":"amd64","os":"linux","id":"` + string(id) + `"}`)
		cd := r.PutBlob(repo, cfg)
		l := []byte{'l', id}
		ld := r.PutBlob(repo, l)
		m := []byte(`{"schemaVersion":2,"mediaType":"application/vnd.oci.image.manifest.v1+json","config":{"mediaType":"application/vnd.oci.image.config.v1+json","digest":"` + cd + `","size":` + itoa18(len(cfg)) + `},"layers":[{"mediaType":"application/vnd.oci.image.layer.v1.tar+gzip","digest":"` + ld + `","size":2}]}`)
		return r.PutManifest(repo, tag, "application/vnd.oci.image.manifest.v1+json", m)
	}
	for i, c := range content {
		digests[c] = put(src, c.repo, c.tag, byte('0'+i))
	}
	keep := put(tgt, "other/keep", "v9", 'k')
	legacy := put(tgt, "team/app", "legacy", 'g')

	var s ConfigSync
	s.Source, s.Target, s.Type = "src.example", "tgt.example", "registry"
	s.MediaTypes = defaultMediaTypes
	if zzBool("has_allow") {
		s.Repos.Allow = []string{zzRepoPatterns[zzInt("allow", 0, len(zzRepoPatterns)-1)]}
	}
	if zzBool("has_deny") {
		s.Repos.Deny = []string{zzRepoPatterns[zzInt("deny", 0, len(zzRepoPatterns)-1)]}
	}
	opts := &rootOpts{
		rc:       regclient.New(regclient.WithRegOpts(reg.WithTransport(&http.Transport{})), regclient.WithSlog(slog.New(slog.NewTextHandler(io.Discard, nil)))),
		log:      slog.New(slog.NewTextHandler(io.Discard, nil)),
		conf:     &Config{},
		throttle: pqueue.New(pqueue.Opts[throttle]{Max: 1}),
	}
	err := opts.processRegistry(context.Background(), s, s.Source, s.Target, actionCopy)
	zzAssert(err == nil, "registry_sync_succeeds")
	zzReach("registry_synced")
	selected := func(repo string) bool {
		ok := len(s.Repos.Allow) == 0
		for _, f := range s.Repos.Allow {
			if m, _ := regexp.MatchString("^"+f+"$", repo); m {
				ok = true
			}
		}
		for _, f := range s.Repos.Deny {
			if m, _ := regexp.MatchString("^"+f+"$", repo); m {
				ok = false
			}
		}
		return ok
	}
	for _, c := range content {
		got := tgt.Repo(c.repo).Tags[c.tag]
		if selected(c.repo) {
			zzReach("repository_selected")
			zzAssert(got == digests[c], "selected_repository_is_mirrored")
		} else {
			zzAssert(got == "", "unselected_repository_is_not_touched")
		}
	}
	zzAssert(tgt.Repo("other/keep").Tags["v9"] == keep && tgt.Repo("team/app").Tags["legacy"] == legacy, "existing_target_content_unchanged")
}

func itoa18(n int) string {
	if n == 0 {
		return "0"
	}
	s := ""
	for n > 0 {
		s = string(rune('0'+n%10)) + s
		n /= 10
	}
	return s
}
