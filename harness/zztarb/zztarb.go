// Package zztarb models archive/tar with a byte format of its own: a writer
// serialises every member to the underlying io.Writer (one header line, then
// the payload; a trailer line on Close) and a reader parses that format from
// the underlying io.Reader. Unlike zztar (API level, global entry lists) the
// archive is real data that flows through digesters, compressors, files and
// blob stores, so code that re-packs an archive (mod's layer rewriting) runs
// on it unchanged. It replaces archive/tar through an import substitution
// (//zz:subst <pkgdir> archive/tar@bytes) in the symbolic run and in the native
// replay alike. The real tar byte format (512-byte blocks, PAX records) is not
// modelled.
package zztarb

import (
	"errors"
	"io"
	"io/fs"
	"strconv"
	"strings"
	"time"
)

const (
	TypeReg     = '0'
	TypeRegA    = '\x00'
	TypeLink    = '1'
	TypeSymlink = '2'
	TypeChar    = '3'
	TypeBlock   = '4'
	TypeDir     = '5'
	TypeFifo    = '6'
)

type Format int

const (
	FormatUnknown Format = 0
	FormatUSTAR   Format = 2
	FormatPAX     Format = 4
	FormatGNU     Format = 8
)

var ErrHeader = errors.New("archive/tar: invalid tar header")

type Header struct {
	Typeflag   byte
	Name       string
	Linkname   string
	Size       int64
	Mode       int64
	Uid, Gid   int
	Uname      string
	Gname      string
	ModTime    time.Time
	AccessTime time.Time
	ChangeTime time.Time
	Devmajor   int64
	Devminor   int64
	Xattrs     map[string]string
	PAXRecords map[string]string
	Format     Format
}

func (h *Header) FileInfo() fs.FileInfo { return nil }

// Entry is one archive member (for harnesses that build or inspect archives).
type Entry struct {
	Hdr  Header
	Data []byte
}

func unix(t time.Time) int64 {
	if t.IsZero() {
		return -1
	}
	return t.Unix()
}

func fromUnix(s string) time.Time {
	v, _ := strconv.ParseInt(s, 10, 64)
	if v < 0 {
		return time.Time{}
	}
	return time.Unix(v, 0).UTC()
}

// Marshal serialises entries the way a Writer would.
func Marshal(entries []Entry) []byte {
	var sb strings.Builder
	for _, e := range entries {
		sb.WriteString(headerLine(&e.Hdr))
		sb.Write(e.Data)
	}
	sb.WriteString("E|\n")
	return []byte(sb.String())
}

// Unmarshal parses a whole archive.
func Unmarshal(b []byte) ([]Entry, error) {
	tr := NewReader(strings.NewReader(string(b)))
	var out []Entry
	for {
		h, err := tr.Next()
		if err == io.EOF {
			return out, nil
		}
		if err != nil {
			return out, err
		}
		d, err := io.ReadAll(tr)
		if err != nil {
			return out, err
		}
		out = append(out, Entry{Hdr: *h, Data: d})
	}
}

func headerLine(h *Header) string {
	f := []string{"T", h.Name, string([]byte{h.Typeflag}), strconv.FormatInt(h.Size, 10), strconv.FormatInt(h.Mode, 10),
		strconv.Itoa(h.Uid), strconv.Itoa(h.Gid), h.Uname, h.Gname, h.Linkname,
		strconv.FormatInt(unix(h.ModTime), 10), strconv.FormatInt(unix(h.AccessTime), 10), strconv.FormatInt(unix(h.ChangeTime), 10)}
	return strings.Join(f, "|") + "|\n"
}

type Reader struct {
	r      io.Reader
	remain int64
	done   bool
}

func NewReader(r io.Reader) *Reader { return &Reader{r: r} }

func (tr *Reader) readByte() (byte, error) {
	var b [1]byte
	for {
		n, err := tr.r.Read(b[:])
		if n == 1 {
			return b[0], nil
		}
		if err != nil {
			return 0, err
		}
	}
}

func (tr *Reader) Next() (*Header, error) {
	if tr.done {
		return nil, io.EOF
	}
	// skip what is left of the current member
	for tr.remain > 0 {
		if _, err := tr.readByte(); err != nil {
			return nil, io.ErrUnexpectedEOF
		}
		tr.remain--
	}
	var line []byte
	for {
		c, err := tr.readByte()
		if err == io.EOF && len(line) == 0 {
			tr.done = true
			return nil, io.EOF
		}
		if err != nil {
			return nil, io.ErrUnexpectedEOF
		}
		if c == '\n' {
			break
		}
		line = append(line, c)
	}
	f := strings.Split(string(line), "|")
	if f[0] == "E" {
		tr.done = true
		return nil, io.EOF
	}
	if f[0] != "T" || len(f) < 14 {
		return nil, ErrHeader
	}
	h := &Header{Name: f[1], Uname: f[7], Gname: f[8], Linkname: f[9]}
	if len(f[2]) == 1 {
		h.Typeflag = f[2][0]
	}
	h.Size, _ = strconv.ParseInt(f[3], 10, 64)
	h.Mode, _ = strconv.ParseInt(f[4], 10, 64)
	h.Uid, _ = strconv.Atoi(f[5])
	h.Gid, _ = strconv.Atoi(f[6])
	h.ModTime, h.AccessTime, h.ChangeTime = fromUnix(f[10]), fromUnix(f[11]), fromUnix(f[12])
	tr.remain = h.Size
	return h, nil
}

func (tr *Reader) Read(b []byte) (int, error) {
	if tr.remain <= 0 {
		return 0, io.EOF
	}
	if int64(len(b)) > tr.remain {
		b = b[:tr.remain]
	}
	n, err := tr.r.Read(b)
	tr.remain -= int64(n)
	if err == io.EOF && tr.remain > 0 {
		err = io.ErrUnexpectedEOF
	}
	if err == io.EOF {
		err = nil
	}
	return n, err
}

type Writer struct {
	w      io.Writer
	remain int64
	closed bool
}

func NewWriter(w io.Writer) *Writer { return &Writer{w: w} }

func (tw *Writer) WriteHeader(h *Header) error {
	if tw.closed {
		return errors.New("archive/tar: write after close")
	}
	if tw.remain > 0 {
		return errors.New("archive/tar: missed writing bytes")
	}
	_, err := tw.w.Write([]byte(headerLine(h)))
	tw.remain = h.Size
	return err
}

func (tw *Writer) Write(b []byte) (int, error) {
	if int64(len(b)) > tw.remain {
		return 0, errors.New("archive/tar: write too long")
	}
	n, err := tw.w.Write(b)
	tw.remain -= int64(n)
	return n, err
}

func (tw *Writer) Flush() error { return nil }

func (tw *Writer) Close() error {
	if tw.closed {
		return nil
	}
	tw.closed = true
	if tw.remain > 0 {
		return errors.New("archive/tar: missed writing bytes")
	}
	_, err := tw.w.Write([]byte("E|\n"))
	return err
}

func FileInfoHeader(fi fs.FileInfo, link string) (*Header, error) {
	h := &Header{Name: fi.Name(), Size: fi.Size(), Mode: int64(fi.Mode().Perm()), ModTime: fi.ModTime()}
	switch {
	case fi.IsDir():
		h.Typeflag = TypeDir
		h.Name += "/"
	default:
		h.Typeflag = TypeReg
	}
	return h, nil
}
