//zz:pkg scheme/reg
//zz:hook internal/reghttp Client.Do
package reg

import (
	"bytes"
	"context"
	"fmt"
	"io"
	"log/slog"
	"net/http"
	"net/url"
	"strconv"
	"strings"

	"github.com/opencontainers/go-digest"

	"github.com/regclient/regclient/internal/reghttp"
	"github.com/regclient/regclient/types/descriptor"
	"github.com/regclient/regclient/types/errs"
	"github.com/regclient/regclient/types/ref"
)

// zzUpload is a distribution-spec conforming blob upload endpoint: one
// session with an offset; PATCH must continue at the offset (else 416 with
// the current Range), accepts a symbolic non-empty prefix of the chunk, and
// answers 202 with Range and a (possibly relocated) Location; the closing
// PUT commits iff the digest matches what was received.
type zzUpload struct {
	client     *reghttp.Client
	alg        digest.Algorithm
	data       []byte
	loc        int
	committed  bool
	commitDig  digest.Digest
	commitData []byte
	cancelled  bool
	patches    int
	faults     int
	maxFaults  int
}

func (s *zzUpload) location() string {
	s.loc++
	if zzBool("loc_query") {
		return "/v2/repo/blobs/uploads/sess?state=" + strconv.Itoa(s.loc)
	}
	return "/v2/repo/blobs/uploads/sess" + strconv.Itoa(s.loc)
}

func (s *zzUpload) rangeHdr() string {
	end := len(s.data) - 1
	if end < 0 {
		end = 0
	}
	return "0-" + strconv.Itoa(end)
}

func (s *zzUpload) do(c *reghttp.Client, ctx context.Context, req *reghttp.Req) (*reghttp.Resp, error) {
	u := req.DirectURL
	if u == nil {
		u = &url.URL{Scheme: "https", Host: "reg.example", Path: "/v2/repo/" + req.Path}
	}
	reply := func(status int, h http.Header) (*reghttp.Resp, error) {
		resp := reghttp.ZZNewResp(s.client, ctx, req, u, status, h, nil, 0)
		if status < 200 || status >= 300 { // as the real Do: any non-2xx reply is an error, IgnoreErr only suppresses the back-off
			return resp, fmt.Errorf("request failed: %w", reghttp.HTTPError(status))
		}
		return resp, nil
	}
	switch req.Method {
	case "POST":
		return reply(202, http.Header{"Location": {s.location()}, "Range": {"0-0"}})
	case "PATCH":
		s.patches++
		var body []byte
		if req.BodyFunc != nil {
			rc, err := req.BodyFunc()
			zzAssert(err == nil, "body_available")
			body, _ = io.ReadAll(rc)
		}
		zzAssert(int64(len(body)) == req.BodyLen, "declared_body_length_matches")
		cr := strings.SplitN(req.Headers.Get("Content-Range"), "-", 2)
		zzAssert(len(cr) == 2, "content_range_present")
		a, errA := strconv.Atoi(cr[0])
		b, errB := strconv.Atoi(cr[1])
		zzAssert(errA == nil && errB == nil, "content_range_numeric")
		zzAssert(b-a+1 == len(body), "content_range_matches_body")
		if s.faults < s.maxFaults && zzBool("fault") {
			// transient failure: nothing accepted, no headers
			s.faults++
			return reply(500, nil)
		}
		if a != len(s.data) {
			return reply(416, http.Header{"Location": {s.location()}, "Range": {s.rangeHdr()}})
		}
		k := zzInt("accept", 1, len(body))
		s.data = append(s.data, body[:k]...)
		status := 202
		if zzBool("early_201") {
			status = 201
		}
		h := http.Header{"Range": {s.rangeHdr()}}
		if zzBool("relocate") {
			h.Set("Location", s.location())
		}
		return reply(status, h)
	case "GET":
		// upload status
		if len(s.data) == 0 {
			return reply(204, http.Header{"Location": {s.location()}})
		}
		return reply(204, http.Header{"Location": {s.location()}, "Range": {s.rangeHdr()}})
	case "PUT":
		d := digest.Digest(u.Query().Get("digest"))
		var body []byte
		if req.BodyFunc != nil {
			rc, err := req.BodyFunc()
			if err == nil {
				body, _ = io.ReadAll(rc)
			}
		}
		all := append(append([]byte{}, s.data...), body...)
		if d.Validate() != nil || d.Algorithm().FromBytes(all) != d {
			return reply(400, nil)
		}
		s.committed, s.commitDig, s.commitData = true, d, all
		return reply(201, nil)
	case "DELETE":
		s.cancelled = true
		return reply(202, nil)
	}
	return reply(405, nil)
}

func zzNewReg(s *zzUpload, chunk int) (*Reg, ref.Ref) {
	rg := New(WithSlog(slog.New(slog.NewTextHandler(io.Discard, nil))))
	rg.reghttp = reghttp.ZZNewClient()
	s.client = rg.reghttp
	reghttp.ZZHook_Client_Do = s.do
	r, err := ref.New("reg.example/repo")
	zzAssert(err == nil, "ref_parses")
	rg.hostGet(r.Registry).BlobChunk = int64(chunk)
	return rg, r
}

// zzShortReader delivers its content with symbolic short reads and is not seekable.
type zzShortReader struct {
	b   []byte
	off int
}

func (r *zzShortReader) Read(p []byte) (int, error) {
	if r.off >= len(r.b) {
		return 0, io.EOF
	}
	max := len(p)
	if len(r.b)-r.off < max {
		max = len(r.b) - r.off
	}
	if max == 0 {
		return 0, nil
	}
	n := zzInt("short_read", 1, max)
	copy(p, r.b[r.off:r.off+n])
	r.off += n
	return n, nil
}

// Chunked upload against a conforming destination: for every content, chunk
// size, partial acceptance and relocation pattern the upload succeeds and
// commits exactly the caller's bytes; a wrong declared digest or size is an
// error and nothing is committed under the declared digest.
func ZZC05_chunked() {
	L := zzInt("len", 0, 3+zzTier())
	content := zzBytes("content", L)
	chunk := zzInt("chunk", 1, 2+zzTier())
	s := &zzUpload{alg: digest.SHA256, maxFaults: 0}
	rg, r := zzNewReg(s, chunk)
	var d descriptor.Descriptor
	declared := zzInt("declared", 0, 3)
	trueDig := digest.FromBytes(content)
	switch declared {
	case 1:
		d = descriptor.Descriptor{Digest: trueDig, Size: int64(L)}
	case 2:
		d = descriptor.Descriptor{Digest: digest.Digest(zzDigest("wrong_digest", "sha256")), Size: int64(L)}
		zzAssume(d.Digest != trueDig)
	case 3:
		d = descriptor.Descriptor{Digest: trueDig, Size: int64(L + 1)}
	}
	var src io.Reader = bytes.NewReader(content)
	if zzBool("short_reads") {
		src = &zzShortReader{b: content}
	}
	putURL, _ := url.Parse("https://reg.example/v2/repo/blobs/uploads/sess0")
	dOut, err := rg.blobPutUploadChunked(context.Background(), r, d, putURL, src)
	zzReach("returned")
	switch declared {
	case 0, 1:
		zzReach("well_formed")
		zzAssert(err == nil, "well_formed_upload_succeeds")
		zzAssert(s.committed && bytes.Equal(s.commitData, content), "committed_exactly_the_callers_bytes")
		zzAssert(dOut.Digest == trueDig && dOut.Size == int64(L), "returned_descriptor_is_that_of_the_content")
		zzAssert(s.commitDig == trueDig, "committed_under_the_content_digest")
	default:
		zzReach("misdeclared")
		zzAssert(err != nil, "misdeclared_upload_fails")
		zzAssert(!s.committed || s.commitDig != d.Digest || bytes.Equal(s.commitData, content) && declared == 3, "nothing_committed_under_a_wrong_digest")
		if declared == 2 {
			zzAssert(!s.committed, "wrong_digest_commits_nothing")
			zzAssert(errorsIsMismatch(err), "wrong_digest_reported_as_mismatch")
		}
	}
}

func errorsIsMismatch(err error) bool {
	for e := err; e != nil; {
		if e == errs.ErrDigestMismatch {
			return true
		}
		u, ok := e.(interface{ Unwrap() error })
		if !ok {
			if us, ok := e.(interface{ Unwrap() []error }); ok {
				for _, x := range us.Unwrap() {
					if errorsIsMismatch(x) {
						return true
					}
				}
			}
			return false
		}
		e = u.Unwrap()
	}
	return false
}
