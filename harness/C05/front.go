//zz:pkg scheme/reg
//zz:hook internal/reghttp Client.Do
//zz:use zzreg
package reg

import (
	"bytes"
	"context"
	"io"
	"log/slog"

	"github.com/opencontainers/go-digest"

	"github.com/regclient/regclient/internal/reghttp"
	"github.com/regclient/regclient/internal/zzreg"
	"github.com/regclient/regclient/types/descriptor"
	"github.com/regclient/regclient/types/ref"
)

type zzPlainReader struct{ r io.Reader } // hides Seek

func (p zzPlainReader) Read(b []byte) (int, error) { return p.r.Read(b) }

// The whole Reg.BlobPut (anonymous mount attempt, upload URL, single PUT,
// rewind and fall-back to the chunk loop, cancel) against a conforming
// registry: symbolic content, declared descriptor absent / digest only /
// right / wrong digest / wrong size, seekable or plain reader, symbolic chunk
// size and single-PUT limit on the client, and a registry that may refuse a
// closing PUT carrying more than a few bytes (forcing the fall-back).
func ZZC05_blobput_front() {
	n := zzInt("len", 0, 3+zzTier())
	for k := 0; k <= 3+zzTier(); k++ {
		if n == k {
			n = k
			break
		}
	}
	content := zzBytes("content", n)
	alg := digest.SHA256
	if zzBool("sha512") {
		alg = digest.SHA512
	}
	declared := zzInt("declared", 0, 4)
	if declared == 0 {
		alg = digest.SHA256 // without a descriptor the canonical algorithm is used
	}
	real := alg.FromBytes(content)
	var d descriptor.Descriptor
	wellFormed := true
	switch declared {
	case 0: // nothing declared
	case 1: // digest only, size unknown
		d.Digest = real
	case 2: // right
		d.Digest, d.Size = real, int64(n)
	case 3: // wrong digest
		d.Digest, d.Size = alg.FromBytes([]byte("something else")), int64(n)
		wellFormed = false
	case 4: // wrong size
		d.Digest, d.Size = real, int64(n)+int64(zzInt("size_off", 1, 2))
		wellFormed = false
	}
	srv := zzreg.New("reg.example")
	srv.MaxPutBody = zzInt("registry_put_limit", 0, 2)
	srv.MinChunk = zzInt("registry_min_chunk", 0, 3)
	for k := 0; k <= 3; k++ {
		if srv.MinChunk == k {
			srv.MinChunk = k
			break
		}
	}
	// a single PUT may break off mid-body with the registry keeping what it got (possibly more than one client chunk)
	srv.PutBreaksAfter = zzInt("registry_put_breaks_after", 0, 2+zzTier())
	for k := 0; k <= 2+zzTier(); k++ {
		if srv.PutBreaksAfter == k {
			srv.PutBreaksAfter = k
			break
		}
	}
	if srv.PutBreaksAfter > 0 {
		zzAssume(srv.MinChunk == 0 && srv.MaxPutBody == 0) // one complication at a time
	}
	chunk := zzInt("chunk", 1, 3)
	for k := 1; k <= 3; k++ {
		if chunk == k {
			chunk = k
			break
		}
	}
	maxPut := zzInt("client_max_put", -1, 2) // -1: never a single PUT above..., 0: default
	rg := New(WithSlog(slog.New(slog.NewTextHandler(io.Discard, nil))), WithBlobSize(int64(chunk), int64(maxPut)))
	rg.reghttp = reghttp.ZZNewClient()
	reghttp.ZZHook_Client_Do = srv.Do
	r, _ := ref.New("reg.example/repo")
	seekable := zzBool("seekable")
	var rdr io.Reader = bytes.NewReader(content)
	if !seekable {
		rdr = zzPlainReader{r: rdr}
	}
	dOut, err := rg.BlobPut(context.Background(), r, d, rdr)
	zzReach("blobput_returned")
	if err == nil {
		zzReach("blobput_succeeded")
		if srv.PutBreaksAfter > 0 && n > srv.PutBreaksAfter && n > 0 && declared == 2 && srv.PutBreaksAfter > chunk {
			zzReach("resumed_beyond_the_first_chunk_after_a_broken_put")
		}
		zzAssert(wellFormed, "misdeclared_upload_fails")
		zzAssert(dOut.Digest == real, "returned_digest_is_content_digest")
		zzAssert(dOut.Size == int64(n), "returned_size_is_content_length")
		found := false
		for _, c := range srv.Commits {
			if c.Repo == "repo" && c.Digest == real.String() {
				found = true
				zzAssert(string(c.Data) == string(content), "committed_bytes_are_the_callers_bytes")
			}
		}
		zzAssert(found, "success_means_committed")
	} else {
		zzReach("blobput_failed")
		// the fall-back needs a rewind: a plain reader may legitimately fail once a single PUT was refused
		forced := (srv.MaxPutBody > 0 && n > srv.MaxPutBody) || (srv.PutBreaksAfter > 0 && n > srv.PutBreaksAfter)
		if wellFormed && (seekable || !forced) {
			zzFail("well_formed_upload_succeeds")
		}
	}
	if !wellFormed && d.Digest != real {
		for _, c := range srv.Commits {
			zzAssert(c.Digest != d.Digest.String(), "nothing_committed_under_a_wrong_declared_digest")
		}
	}
	if !wellFormed {
		for _, c := range srv.Commits {
			if c.Digest == d.Digest.String() {
				zzAssert(string(c.Data) == string(content) && int64(len(c.Data)) == d.Size, "nothing_committed_under_a_misdeclared_descriptor")
			}
		}
	}
}
