//zz:pkg scheme/ocidir
//zz:subst scheme/ocidir os
package ocidir

import (
	"bytes"
	"context"
	"io"
	"strings"

	"github.com/opencontainers/go-digest"

	zzos "github.com/regclient/regclient/internal/zzos"
	"github.com/regclient/regclient/types/descriptor"
	"github.com/regclient/regclient/types/ref"
)

type zzChunkReader struct {
	b   []byte
	off int
}

// Read hands out the content in pieces of symbolic length (a plain, non-seekable stream).
func (r *zzChunkReader) Read(p []byte) (int, error) {
	if r.off >= len(r.b) {
		return 0, io.EOF
	}
	n := len(p)
	if n > len(r.b)-r.off {
		n = len(r.b) - r.off
	}
	if n > 1 && zzBool("short_read") {
		n = 1
	}
	copy(p, r.b[r.off:r.off+n])
	r.off += n
	return n, nil
}

// OCI layout as the destination of a blob upload: symbolic content and
// length, declared descriptor absent / digest only / right / wrong digest /
// wrong size, sha256 or sha512, seekable reader or a plain stream with short
// reads, into an empty directory or an existing layout. Success means the
// file named by the returned digest holds exactly the stream's bytes and the
// returned size is their number; a misdeclared upload fails and leaves
// nothing under the declared digest.
func ZZC05_ocidir_blobput() {
	zzos.Reset()
	const root = "/lay"
	if zzBool("existing_layout") {
		zzos.Cur.Put(root+"/oci-layout", []byte(`{"imageLayoutVersion":"1.0.0"}`))
		zzos.Cur.Put(root+"/index.json", []byte(`{"schemaVersion":2,"mediaType":"application/vnd.oci.image.index.v1+json","manifests":[]}`))
	}
	n := zzInt("len", 0, 3+zzTier())
	for k := 0; k <= 3+zzTier(); k++ {
		if n == k {
			n = k
			break
		}
	}
	content := zzBytes("content", n)
	alg := digest.SHA256
	if zzBool("sha512") {
		alg = digest.SHA512
	}
	declared := zzInt("declared", 0, 4)
	if declared == 0 {
		alg = digest.SHA256
	}
	real := alg.FromBytes(content)
	var d descriptor.Descriptor
	wellFormed := true
	switch declared {
	case 1:
		d.Digest = real
	case 2:
		d.Digest, d.Size = real, int64(n)
	case 3:
		d.Digest, d.Size = alg.FromBytes([]byte("something else")), int64(n)
		wellFormed = false
	case 4:
		d.Digest, d.Size = real, int64(n)+int64(zzInt("size_off", 1, 2))
		wellFormed = false
	}
	var rdr io.Reader = bytes.NewReader(content)
	if zzBool("plain_stream") {
		rdr = &zzChunkReader{b: content}
	}
	o := New()
	r, _ := ref.New("ocidir://" + root)
	dOut, err := o.BlobPut(context.Background(), r, d, rdr)
	zzReach("blobput_returned")
	file := func(dg digest.Digest) string { return root + "/blobs/" + dg.Algorithm().String() + "/" + dg.Encoded() }
	if err == nil {
		zzReach("blobput_succeeded")
		zzAssert(wellFormed, "misdeclared_upload_fails")
		zzAssert(dOut.Digest == real, "returned_digest_is_content_digest")
		zzAssert(dOut.Size == int64(n), "returned_size_is_content_length")
		got, ok := zzos.Cur.Data(file(real))
		zzAssert(ok && string(got) == string(content), "committed_bytes_are_the_callers_bytes")
	} else {
		zzReach("blobput_failed")
		zzAssert(!wellFormed, "well_formed_upload_succeeds")
	}
	if !wellFormed && d.Digest != real {
		zzAssert(!zzos.Cur.Exists(file(d.Digest)), "nothing_committed_under_a_wrong_declared_digest")
	}
	if declared == 4 {
		// the declared digest is the content's own, the declared size is not: nothing may appear under it
		zzAssert(!zzos.Cur.Exists(file(d.Digest)), "nothing_committed_under_a_misdeclared_descriptor")
	}
	// nothing but blobs, the marker and the index is left in the layout by a successful upload
	if err == nil {
		for _, f := range zzos.Cur.Files() {
			zzAssert(!strings.HasSuffix(f, ".tmp"), "no_temp_file_left_by_a_successful_upload")
		}
	}
}
