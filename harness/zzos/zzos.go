// Package zzos is an in-memory model of the parts of package os that the code
// under test uses. A harness directive (//zz:subst <pkgdir> os) makes the
// files of that package import this package under the name "os", both for the
// symbolic run and for the native replay, so the same model (with its crash
// and fault injection) is executed in both.
//
// Semantics: one flat map path -> node; Write is visible immediately; Rename
// is atomic and replaces the target; every mutating call is appended to a
// trace so that a harness can rebuild the state after the first k calls
// (crash points), optionally with the k-th write torn after a prefix.
package zzos

import (
	"io"
	"io/fs"
	realos "os"
	"path"
	"strconv"
	"strings"
	"sync"
	"time"
)

type FileMode = fs.FileMode
type FileInfo = fs.FileInfo
type DirEntry = fs.DirEntry
type PathError = fs.PathError

const (
	ModePerm      = fs.ModePerm
	ModeDir       = fs.ModeDir
	O_RDONLY      = 0
	O_WRONLY      = 1
	O_RDWR        = 2
	O_APPEND      = 0x400
	O_CREATE      = 0x40
	O_EXCL        = 0x80
	O_TRUNC       = 0x200
	PathSeparator = '/'
)

var (
	ErrNotExist = fs.ErrNotExist
	ErrExist    = fs.ErrExist
	ErrInvalid  = fs.ErrInvalid
	ErrClosed   = fs.ErrClosed
)

type node struct {
	dir  bool
	data []byte
}

// Op is one mutating file-system call.
type Op struct {
	Kind  string // mkdir | create | write | rename | remove
	Path  string
	Path2 string
	Data  []byte
}

type FS struct {
	nodes map[string]*node
	order []string // insertion order: directory listings follow it
	Trace []Op
	base  map[string]*node
	baseO []string
	tmp   int
	// MayFail, when set, is asked before every call whether it should fail
	// with an I/O error (fault injection).
	MayFail func(op, name string) bool
	// Observer, when set, sees every mutating call just before it is applied
	// (monitors); ReadObserver sees every read of file content.
	Observer     func(op Op)
	ReadObserver func(name string, n int)
	replaying    bool
	// mu serialises the public calls (the code under test may use several
	// goroutines); observers run with it held and use the lock-free
	// inspection helpers (Data, Exists, Files).
	mu sync.Mutex
}

var Cur = NewFS()

func NewFS() *FS {
	f := &FS{nodes: map[string]*node{}}
	f.nodes["/"] = &node{dir: true}
	f.nodes["."] = &node{dir: true}
	f.order = []string{"/", "."}
	return f
}

// Reset installs an empty file system.
func Reset() { Cur = NewFS() }

func copyNodes(m map[string]*node) map[string]*node {
	out := make(map[string]*node, len(m))
	for k, n := range m {
		c := &node{dir: n.dir}
		c.data = append([]byte(nil), n.data...)
		out[k] = c
	}
	return out
}

// Mark remembers the current state as the base for CrashAt and clears the trace.
func (f *FS) Mark() {
	f.base = copyNodes(f.nodes)
	f.baseO = append([]string(nil), f.order...)
	f.Trace = nil
}

// CrashAt rebuilds the state reached after the first k traced calls; if the
// next call is a write and torn >= 0, only its first torn bytes are applied.
func (f *FS) CrashAt(k int, torn int) {
	trace := f.Trace
	f.replaying = true
	defer func() { f.replaying = false }()
	f.nodes = copyNodes(f.base)
	f.order = append([]string(nil), f.baseO...)
	f.Trace = nil
	for i := 0; i < k && i < len(trace); i++ {
		f.apply(trace[i])
	}
	if k < len(trace) && trace[k].Kind == "write" && torn >= 0 && torn < len(trace[k].Data) {
		op := trace[k]
		op.Data = op.Data[:torn]
		f.apply(op)
	}
	f.Trace = nil
}

func (f *FS) add(name string, n *node) {
	if _, ok := f.nodes[name]; !ok {
		f.order = append(f.order, name)
	}
	f.nodes[name] = n
}

func (f *FS) del(name string) {
	delete(f.nodes, name)
	for i, o := range f.order {
		if o == name {
			f.order = append(f.order[:i:i], f.order[i+1:]...)
			break
		}
	}
}

func (f *FS) apply(op Op) {
	if f.Observer != nil && !f.replaying {
		f.Observer(op)
	}
	f.Trace = append(f.Trace, op)
	switch op.Kind {
	case "mkdir":
		f.add(op.Path, &node{dir: true})
	case "create":
		f.add(op.Path, &node{})
	case "write":
		if n := f.nodes[op.Path]; n != nil {
			n.data = append(n.data, op.Data...)
		}
	case "rename":
		if n := f.nodes[op.Path]; n != nil {
			f.del(op.Path)
			f.add(op.Path2, n)
		}
	case "remove":
		f.del(op.Path)
	}
}

func clean(name string) string {
	if name == "" {
		return "."
	}
	return path.Clean(name)
}

func perr(op, name string, err error) error { return &fs.PathError{Op: op, Path: name, Err: err} }

var errIO = io.ErrClosedPipe // stands for EIO in injected faults

// fail asks the harness whether this call fails. The callback runs without the
// file-system lock: it may be a scheduling point that waits for other goroutines.
func (f *FS) fail(op, name string) bool {
	if f.MayFail == nil {
		return false
	}
	cb := f.MayFail
	f.mu.Unlock()
	r := cb(op, name)
	f.mu.Lock()
	return r
}

// ---- package-level API (subset of package os) ----

func Stat(name string) (fs.FileInfo, error) {
	Cur.mu.Lock()
	defer Cur.mu.Unlock()
	f := Cur
	name = clean(name)
	n, ok := f.nodes[name]
	if !ok {
		return nil, perr("stat", name, fs.ErrNotExist)
	}
	return fileInfo{name: path.Base(name), size: int64(len(n.data)), dir: n.dir}, nil
}

func Lstat(name string) (fs.FileInfo, error) { return Stat(name) }

func MkdirAll(name string, perm fs.FileMode) error {
	Cur.mu.Lock()
	defer Cur.mu.Unlock()
	return mkdirAll(name, perm)
}

func mkdirAll(name string, perm fs.FileMode) error {
	f := Cur
	name = clean(name)
	if f.fail("mkdir", name) {
		return perr("mkdir", name, errIO)
	}
	if n, ok := f.nodes[name]; ok {
		if n.dir {
			return nil
		}
		return perr("mkdir", name, fs.ErrExist)
	}
	// create parents first
	if parent := path.Dir(name); parent != name {
		if err := mkdirAll(parent, perm); err != nil {
			return err
		}
	}
	f.apply(Op{Kind: "mkdir", Path: name})
	return nil
}

func Mkdir(name string, perm fs.FileMode) error {
	Cur.mu.Lock()
	defer Cur.mu.Unlock()
	f := Cur
	name = clean(name)
	if _, ok := f.nodes[name]; ok {
		return perr("mkdir", name, fs.ErrExist)
	}
	if p, ok := f.nodes[path.Dir(name)]; !ok || !p.dir {
		return perr("mkdir", name, fs.ErrNotExist)
	}
	f.apply(Op{Kind: "mkdir", Path: name})
	return nil
}

func (f *FS) parentOK(name string) bool {
	p, ok := f.nodes[path.Dir(name)]
	return ok && p.dir
}

func Create(name string) (*File, error) {
	return OpenFile(name, O_RDWR|O_CREATE|O_TRUNC, 0666)
}

func Open(name string) (*File, error) { return OpenFile(name, O_RDONLY, 0) }

func OpenFile(name string, flag int, perm fs.FileMode) (*File, error) {
	Cur.mu.Lock()
	defer Cur.mu.Unlock()
	f := Cur
	name = clean(name)
	if f.fail("open", name) {
		return nil, perr("open", name, errIO)
	}
	n, ok := f.nodes[name]
	if !ok {
		if flag&O_CREATE == 0 {
			return nil, perr("open", name, fs.ErrNotExist)
		}
		if !f.parentOK(name) {
			return nil, perr("open", name, fs.ErrNotExist)
		}
		f.apply(Op{Kind: "create", Path: name})
		n = f.nodes[name]
	} else {
		if flag&O_CREATE != 0 && flag&O_EXCL != 0 {
			return nil, perr("open", name, fs.ErrExist)
		}
		if n.dir && flag&(O_WRONLY|O_RDWR) != 0 {
			return nil, perr("open", name, fs.ErrInvalid)
		}
		if flag&O_TRUNC != 0 && !n.dir {
			// truncation = replace by an empty file
			f.apply(Op{Kind: "create", Path: name})
			n = f.nodes[name]
		}
	}
	fh := &File{fs: f, name: name, write: flag&(O_WRONLY|O_RDWR) != 0}
	if flag&O_APPEND != 0 {
		fh.off = len(n.data)
	}
	return fh, nil
}

func CreateTemp(dir, pattern string) (*File, error) {
	Cur.mu.Lock()
	defer Cur.mu.Unlock()
	f := Cur
	if dir == "" {
		dir = "/tmp"
	}
	dir = clean(dir)
	if f.fail("createtemp", dir) {
		return nil, perr("open", dir, errIO)
	}
	if d, ok := f.nodes[dir]; !ok || !d.dir {
		return nil, perr("open", dir, fs.ErrNotExist)
	}
	prefix, suffix := pattern, ""
	if i := strings.LastIndexByte(pattern, '*'); i >= 0 {
		prefix, suffix = pattern[:i], pattern[i+1:]
	}
	f.tmp++
	name := path.Join(dir, prefix+strconv.Itoa(100000+f.tmp)+suffix)
	f.apply(Op{Kind: "create", Path: name})
	return &File{fs: f, name: name, write: true}, nil
}

func Rename(oldpath, newpath string) error {
	Cur.mu.Lock()
	defer Cur.mu.Unlock()
	f := Cur
	oldpath, newpath = clean(oldpath), clean(newpath)
	if f.fail("rename", oldpath) {
		return perr("rename", oldpath, errIO)
	}
	if _, ok := f.nodes[oldpath]; !ok {
		return perr("rename", oldpath, fs.ErrNotExist)
	}
	if !f.parentOK(newpath) {
		return perr("rename", newpath, fs.ErrNotExist)
	}
	f.apply(Op{Kind: "rename", Path: oldpath, Path2: newpath})
	return nil
}

func Remove(name string) error {
	Cur.mu.Lock()
	defer Cur.mu.Unlock()
	f := Cur
	name = clean(name)
	if f.fail("remove", name) {
		return perr("remove", name, errIO)
	}
	n, ok := f.nodes[name]
	if !ok {
		return perr("remove", name, fs.ErrNotExist)
	}
	if n.dir {
		for _, o := range f.order {
			if o != name && path.Dir(o) == name {
				return perr("remove", name, fs.ErrInvalid)
			}
		}
	}
	f.apply(Op{Kind: "remove", Path: name})
	return nil
}

func RemoveAll(name string) error {
	Cur.mu.Lock()
	defer Cur.mu.Unlock()
	f := Cur
	name = clean(name)
	var victims []string
	for _, o := range f.order {
		if o == name || strings.HasPrefix(o, name+"/") {
			victims = append(victims, o)
		}
	}
	for i := len(victims) - 1; i >= 0; i-- {
		f.apply(Op{Kind: "remove", Path: victims[i]})
	}
	return nil
}

func ReadFile(name string) ([]byte, error) {
	Cur.mu.Lock()
	defer Cur.mu.Unlock()
	f := Cur
	name = clean(name)
	if f.fail("read", name) {
		return nil, perr("read", name, errIO)
	}
	n, ok := f.nodes[name]
	if !ok {
		return nil, perr("open", name, fs.ErrNotExist)
	}
	if n.dir {
		return nil, perr("read", name, fs.ErrInvalid)
	}
	if f.ReadObserver != nil {
		f.ReadObserver(name, len(n.data))
	}
	return append([]byte{}, n.data...), nil
}

func WriteFile(name string, data []byte, perm fs.FileMode) error {
	fh, err := OpenFile(name, O_WRONLY|O_CREATE|O_TRUNC, perm)
	if err != nil {
		return err
	}
	_, err = fh.Write(data)
	if err1 := fh.Close(); err1 != nil && err == nil {
		err = err1
	}
	return err
}

// ReadDir lists a directory in insertion order (the real os.ReadDir sorts by
// name; code that depends on the order is outside what this model shows).
func ReadDir(name string) ([]fs.DirEntry, error) {
	Cur.mu.Lock()
	defer Cur.mu.Unlock()
	f := Cur
	name = clean(name)
	d, ok := f.nodes[name]
	if !ok {
		return nil, perr("open", name, fs.ErrNotExist)
	}
	if !d.dir {
		return nil, perr("readdir", name, fs.ErrInvalid)
	}
	var out []fs.DirEntry
	for _, o := range f.order {
		if o != name && path.Dir(o) == name {
			n := f.nodes[o]
			out = append(out, dirEntry{fileInfo{name: path.Base(o), size: int64(len(n.data)), dir: n.dir}})
		}
	}
	return out, nil
}

func IsNotExist(err error) bool {
	for err != nil {
		if err == fs.ErrNotExist {
			return true
		}
		u, ok := err.(interface{ Unwrap() error })
		if !ok {
			return false
		}
		err = u.Unwrap()
	}
	return false
}

// Stdout, Stderr, Stdin are sinks.
var (
	Stdin  = &File{name: "/dev/stdin"}
	Stdout = &File{name: "/dev/stdout", write: true, sink: true}
	Stderr = &File{name: "/dev/stderr", write: true, sink: true}
)

func Getenv(string) string            { return "" }
func LookupEnv(string) (string, bool) { return "", false }
func UserHomeDir() (string, error)    { return "/home/zz", nil }
func TempDir() string                 { return "/tmp" }
func Getwd() (string, error)          { return "/", nil }

// Signal, Interrupt, Exit, Args: the parts of package os a command's main file names.
type Signal = realos.Signal

var (
	Interrupt = realos.Interrupt
	Kill      = realos.Kill
	Args      = []string{"zz"}
)

type ExitCalled struct{ Code int }

func Exit(code int) { panic(ExitCalled{Code: code}) }

// ---- File ----

type File struct {
	fs     *FS
	name   string
	off    int
	write  bool
	closed bool
	sink   bool
}

func (f *File) Name() string { return f.name }

func (f *File) node() *node { return f.fs.nodes[f.name] }

func (f *File) Write(b []byte) (int, error) {
	if f.sink {
		return len(b), nil
	}
	Cur.mu.Lock()
	defer Cur.mu.Unlock()
	if f.closed {
		return 0, perr("write", f.name, fs.ErrClosed)
	}
	if !f.write {
		return 0, perr("write", f.name, fs.ErrInvalid)
	}
	if f.fs.fail("write", f.name) {
		return 0, perr("write", f.name, errIO)
	}
	if len(b) == 0 {
		return 0, nil
	}
	f.fs.apply(Op{Kind: "write", Path: f.name, Data: append([]byte(nil), b...)})
	f.off += len(b)
	return len(b), nil
}

func (f *File) WriteString(s string) (int, error) { return f.Write([]byte(s)) }

func (f *File) Read(b []byte) (int, error) {
	Cur.mu.Lock()
	defer Cur.mu.Unlock()
	if f.closed {
		return 0, perr("read", f.name, fs.ErrClosed)
	}
	n := f.node()
	if n == nil {
		return 0, perr("read", f.name, fs.ErrNotExist)
	}
	if n.dir {
		return 0, perr("read", f.name, fs.ErrInvalid)
	}
	if f.fs.fail("read", f.name) {
		return 0, perr("read", f.name, errIO)
	}
	if f.off >= len(n.data) {
		return 0, io.EOF
	}
	c := copy(b, n.data[f.off:])
	f.off += c
	if f.fs.ReadObserver != nil {
		f.fs.ReadObserver(f.name, c)
	}
	return c, nil
}

// ReadFrom keeps io.Copy from allocating its 32 KiB buffer.
func (f *File) ReadFrom(r io.Reader) (int64, error) {
	var total int64
	buf := make([]byte, 16)
	for {
		n, err := r.Read(buf)
		if n > 0 {
			w, werr := f.Write(buf[:n])
			total += int64(w)
			if werr != nil {
				return total, werr
			}
		}
		if err == io.EOF {
			return total, nil
		}
		if err != nil {
			return total, err
		}
	}
}

func (f *File) Seek(offset int64, whence int) (int64, error) {
	n := f.node()
	switch whence {
	case io.SeekStart:
		f.off = int(offset)
	case io.SeekCurrent:
		f.off += int(offset)
	case io.SeekEnd:
		if n != nil {
			f.off = len(n.data) + int(offset)
		}
	}
	return int64(f.off), nil
}

func (f *File) Close() error {
	if f.closed {
		return perr("close", f.name, fs.ErrClosed)
	}
	f.closed = true
	return nil
}

func (f *File) Sync() error { return nil }

func (f *File) Stat() (fs.FileInfo, error) {
	Cur.mu.Lock()
	defer Cur.mu.Unlock()
	n := f.node()
	if n == nil {
		return nil, perr("stat", f.name, fs.ErrNotExist)
	}
	return fileInfo{name: path.Base(f.name), size: int64(len(n.data)), dir: n.dir}, nil
}

func (f *File) ReadDir(n int) ([]fs.DirEntry, error) { return ReadDir(f.name) }

func (f *File) Readdir(n int) ([]fs.FileInfo, error) {
	es, err := ReadDir(f.name)
	if err != nil {
		return nil, err
	}
	var out []fs.FileInfo
	for _, e := range es {
		fi, _ := e.Info()
		out = append(out, fi)
	}
	return out, nil
}

type fileInfo struct {
	name string
	size int64
	dir  bool
}

func (fi fileInfo) Name() string { return fi.name }
func (fi fileInfo) Size() int64  { return fi.size }
func (fi fileInfo) Mode() fs.FileMode {
	if fi.dir {
		return fs.ModeDir | 0755
	}
	return 0644
}
func (fi fileInfo) ModTime() time.Time { return time.Time{} }
func (fi fileInfo) IsDir() bool        { return fi.dir }
func (fi fileInfo) Sys() any           { return nil }

type dirEntry struct{ fi fileInfo }

func (d dirEntry) Name() string               { return d.fi.name }
func (d dirEntry) IsDir() bool                { return d.fi.dir }
func (d dirEntry) Type() fs.FileMode          { return d.fi.Mode().Type() }
func (d dirEntry) Info() (fs.FileInfo, error) { return d.fi, nil }

// ---- inspection helpers for harnesses ----

// Files returns the paths of all regular files in insertion order.
func (f *FS) Files() []string {
	var out []string
	for _, o := range f.order {
		if n := f.nodes[o]; n != nil && !n.dir {
			out = append(out, o)
		}
	}
	return out
}

func (f *FS) Exists(name string) bool { _, ok := f.nodes[clean(name)]; return ok }

func (f *FS) Data(name string) ([]byte, bool) {
	n, ok := f.nodes[clean(name)]
	if !ok || n.dir {
		return nil, false
	}
	return n.data, true
}

// Put stores a file directly (pre-state construction), creating parents.
func (f *FS) Put(name string, data []byte) {
	name = clean(name)
	for d := path.Dir(name); ; d = path.Dir(d) {
		if _, ok := f.nodes[d]; !ok {
			f.add(d, &node{dir: true})
		}
		if d == "/" || d == "." {
			break
		}
	}
	f.add(name, &node{data: append([]byte(nil), data...)})
}
