#!/bin/bash
# usage: tools_seed_check.sh <seed-id> <property> [extra gosym args]
# Applies /verif/seeded/<seed-id>/patch.diff to /repo, runs the property's quick command, undoes the patch.
ID=$1; PROP=$2; shift 2
D=/verif/seeded/$ID
git -C /repo apply $D/patch.diff || exit 2
cd /verif && CMD=$(python3 -c "import json;print([c['quick_cmd'] for c in json.load(open('/verif/MANIFEST.json'))['checks'] if c['property_id']=='$PROP'][0])")
timeout 2400 $CMD "$@" 2>&1 | grep -E "^(VIOLATION|RESULT|KNOWN|INCONCLUSIVE|  violated)" | cut -c1-260 | head -12
git -C /repo checkout -- .
