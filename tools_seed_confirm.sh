#!/bin/bash
# usage: tools_seed_confirm.sh <seed-id> <worktree>
# Confirms a seeded change inside its own worktree (builds, existing suite passes,
# demo fails with / passes without) and stores it under /verif/seeded/<seed-id>/.
# Does not touch /repo (tools_seed_check.sh does).
set -u
ID=$1; WT=$2
export GOFLAGS=-mod=mod GOPROXY=off GOSUMDB=off GOTOOLCHAIN=local
D=/verif/seeded/$ID; mkdir -p $D
cd $WT || exit 2
git diff > $D/patch.diff
DEMO=$(git ls-files --others --exclude-standard | grep '_test.go$' | head -1)
cp "$DEMO" $D/ 2>/dev/null
cp SEED_NOTES.md $D/ 2>/dev/null
PKG=./$(dirname "$DEMO")
echo "== demo: $DEMO pkg: $PKG"
go build ./... && echo BUILD-OK || echo BUILD-FAIL
echo "== whole existing suite with the change, demo skipped"
go test -vet=off -count=1 -p 3 -skip 'Demo|ZZ|ExampleNew' ./... 2>&1 | grep -E "^(FAIL|--- FAIL|ok)" | grep -v "^ok" | sort -u | head; echo "   (no FAIL lines above = suite passes)"
echo "== demo WITH change (expect FAIL)"
go test -vet=off -count=1 -run 'Demo|ZZ' $PKG 2>&1 | grep -E "^(ok|FAIL|--- FAIL)" | head -3
git apply -R $D/patch.diff
echo "== demo WITHOUT change (expect ok)"
go test -vet=off -count=1 -run 'Demo|ZZ' $PKG 2>&1 | grep -E "^(ok|FAIL|--- FAIL)" | head -3
git apply $D/patch.diff
