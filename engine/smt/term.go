// Package smt is a small term DAG with a simplifier and an SMT-LIB2 printer.
// Sorts are Bool and Int only: every Go integer is a mathematical integer
// whose machine width is re-imposed by the interpreter (wrap formulas) exactly
// where the tracked interval says the value can leave the type's range.
package smt

import (
	"fmt"
	"math"
	"math/big"
	"sort"
	"strings"
	"sync"
	"sync/atomic"
)

type Sort uint8

const (
	Bool Sort = iota
	Int
)

type Op uint8

const (
	OConst Op = iota // Int or Bool constant
	OVar
	ONot
	OAnd
	OOr
	OIte
	OEq
	OLt
	OLe
	OAdd
	OSub
	OMul
	ODiv // SMT div (floor for positive divisor)
	OMod // SMT mod (non-negative result)
	ONeg
	OApp // uninterpreted function application
	OBv  // bit-vector operation through int2bv/bv2nat: Name = bvand|bvor|bvxor|bvshl|bvlshr, IV = width
)

var nextID uint64

// ---- hash-consing: structurally equal terms are one object ----

type internKey struct {
	op         Op
	sort       Sort
	name       string
	iv         int64
	n          int
	a0, a1, a2 uint64
	rest       string
}

const nShards = 256

var internTab [nShards]struct {
	mu sync.Mutex
	m  map[internKey]*T
}

// ResetIntern drops the table (terms already built stay valid).
func ResetIntern() {
	for i := range internTab {
		internTab[i].mu.Lock()
		internTab[i].m = nil
		internTab[i].mu.Unlock()
	}
}

func intern(t *T) *T {
	k := internKey{op: t.Op, sort: t.Sort, name: t.Name, iv: t.IV, n: len(t.Args)}
	h := uint64(t.Op)*1000003 + uint64(len(t.Args)) + uint64(t.IV)*7919
	for i, a := range t.Args {
		h = h*1000003 + a.ID
		switch i {
		case 0:
			k.a0 = a.ID
		case 1:
			k.a1 = a.ID
		case 2:
			k.a2 = a.ID
		}
	}
	if len(t.Args) > 3 {
		var b strings.Builder
		for _, a := range t.Args[3:] {
			fmt.Fprintf(&b, "%d,", a.ID)
		}
		k.rest = b.String()
	}
	for i := 0; i < len(t.Name); i++ {
		h = h*31 + uint64(t.Name[i])
	}
	sh := &internTab[h%nShards]
	sh.mu.Lock()
	defer sh.mu.Unlock()
	if sh.m == nil {
		sh.m = map[internKey]*T{}
	}
	if old, ok := sh.m[k]; ok {
		return old
	}
	sh.m[k] = t
	return t
}

// T is an immutable term.
type T struct {
	Op   Op
	Sort Sort
	Args []*T
	IV   int64    // constant value (Int: value when Big==nil; Bool: 0/1); OBv: width
	Big  *big.Int // constant that does not fit int64
	Name string   // OVar, OApp, OBv
	ID   uint64
	// interval for Int terms; LoInf/HiInf = unbounded on that side
	Lo, Hi       int64
	LoInf, HiInf bool
}

func newT(op Op, s Sort) *T {
	return &T{Op: op, Sort: s, ID: atomic.AddUint64(&nextID, 1)}
}

var (
	True  = &T{Op: OConst, Sort: Bool, IV: 1, ID: 1}
	False = &T{Op: OConst, Sort: Bool, IV: 0, ID: 2}
)

var smallInts [1280]*T

func init() {
	nextID = 10
	for i := range smallInts {
		v := int64(i - 256)
		smallInts[i] = &T{Op: OConst, Sort: Int, IV: v, Lo: v, Hi: v, ID: atomic.AddUint64(&nextID, 1)}
	}
}

func I(v int64) *T {
	if v >= -256 && v < 1024 {
		return smallInts[v+256]
	}
	t := newT(OConst, Int)
	t.IV, t.Lo, t.Hi = v, v, v
	return intern(t)
}

func BigI(b *big.Int) *T {
	if b.IsInt64() {
		return I(b.Int64())
	}
	t := newT(OConst, Int)
	t.Big = new(big.Int).Set(b)
	t.Name = "#" + b.String()
	if b.Sign() > 0 {
		t.Lo, t.HiInf = math.MaxInt64, true
		t.Hi = math.MaxInt64
	} else {
		t.Hi, t.LoInf = math.MinInt64, true
		t.Lo = math.MinInt64
	}
	return t
}

func U64(v uint64) *T {
	if v <= math.MaxInt64 {
		return I(int64(v))
	}
	return BigI(new(big.Int).SetUint64(v))
}

func B(b bool) *T {
	if b {
		return True
	}
	return False
}

func (t *T) IsConst() bool { return t.Op == OConst }

// BigVal returns the constant's value as a big.Int (t must be an Int constant).
func (t *T) BigVal() *big.Int {
	if t.Big != nil {
		return t.Big
	}
	return big.NewInt(t.IV)
}

// Int64 returns the constant value if t is an int constant that fits.
func (t *T) Int64() (int64, bool) {
	if t.Op == OConst && t.Sort == Int && t.Big == nil {
		return t.IV, true
	}
	return 0, false
}

func (t *T) BoolVal() (bool, bool) {
	if t.Op == OConst && t.Sort == Bool {
		return t.IV != 0, true
	}
	return false, false
}

// Var creates a fresh variable term. Bounds are optional (loInf/hiInf).
func Var(name string, s Sort) *T {
	t := newT(OVar, s)
	t.Name = name
	t.LoInf, t.HiInf = true, true
	return t
}

func VarRange(name string, lo, hi int64) *T {
	t := newT(OVar, Int)
	t.Name = name
	t.Lo, t.Hi = lo, hi
	return t
}

func App(name string, s Sort, args ...*T) *T {
	t := newT(OApp, s)
	t.Name = name
	t.Args = args
	t.LoInf, t.HiInf = true, true
	return t
}

// ---- boolean connectives ----

func Not(a *T) *T {
	if v, ok := a.BoolVal(); ok {
		return B(!v)
	}
	if a.Op == ONot {
		return a.Args[0]
	}
	t := newT(ONot, Bool)
	t.Args = []*T{a}
	return intern(t)
}

func And(xs ...*T) *T {
	var out []*T
	for _, x := range xs {
		if v, ok := x.BoolVal(); ok {
			if !v {
				return False
			}
			continue
		}
		if x.Op == OAnd {
			out = append(out, x.Args...)
			continue
		}
		out = append(out, x)
	}
	out = dedup(out)
	switch len(out) {
	case 0:
		return True
	case 1:
		return out[0]
	}
	for _, a := range out {
		if a.Op == ONot {
			for _, b := range out {
				if b == a.Args[0] {
					return False
				}
			}
		}
	}
	t := newT(OAnd, Bool)
	t.Args = out
	return intern(t)
}

func Or(xs ...*T) *T {
	var out []*T
	for _, x := range xs {
		if v, ok := x.BoolVal(); ok {
			if v {
				return True
			}
			continue
		}
		if x.Op == OOr {
			out = append(out, x.Args...)
			continue
		}
		out = append(out, x)
	}
	out = dedup(out)
	switch len(out) {
	case 0:
		return False
	case 1:
		return out[0]
	}
	for _, a := range out {
		if a.Op == ONot {
			for _, b := range out {
				if b == a.Args[0] {
					return True
				}
			}
		}
	}
	t := newT(OOr, Bool)
	t.Args = out
	return intern(t)
}

func dedup(xs []*T) []*T {
	if len(xs) < 2 {
		return xs
	}
	if len(xs) > 64 {
		seen := map[*T]bool{}
		out := xs[:0:0]
		for _, x := range xs {
			if !seen[x] {
				seen[x] = true
				out = append(out, x)
			}
		}
		return out
	}
	out := xs[:0:0]
outer:
	for _, x := range xs {
		for _, y := range out {
			if x == y {
				continue outer
			}
		}
		out = append(out, x)
	}
	return out
}

func Implies(a, b *T) *T { return Or(Not(a), b) }

func Iff(a, b *T) *T { return Eq(a, b) }

func Ite(c, a, b *T) *T {
	if v, ok := c.BoolVal(); ok {
		if v {
			return a
		}
		return b
	}
	if a == b {
		return a
	}
	if a.Sort == Bool {
		if av, ok := a.BoolVal(); ok {
			if av {
				return Or(c, b)
			}
			return And(Not(c), b)
		}
		if bv, ok := b.BoolVal(); ok {
			if bv {
				return Or(Not(c), a)
			}
			return And(c, a)
		}
	}
	if a.IsConst() && b.IsConst() && a.Sort == Int && a.Big == nil && b.Big == nil && a.IV == b.IV {
		return a
	}
	t := newT(OIte, a.Sort)
	t.Args = []*T{c, a, b}
	if a.Sort == Int {
		t.Lo, t.LoInf = minB(a.Lo, a.LoInf, b.Lo, b.LoInf)
		t.Hi, t.HiInf = maxB(a.Hi, a.HiInf, b.Hi, b.HiInf)
	}
	return intern(t)
}

func minB(a int64, ai bool, b int64, bi bool) (int64, bool) {
	if ai || bi {
		return math.MinInt64, true
	}
	if a < b {
		return a, false
	}
	return b, false
}
func maxB(a int64, ai bool, b int64, bi bool) (int64, bool) {
	if ai || bi {
		return math.MaxInt64, true
	}
	if a > b {
		return a, false
	}
	return b, false
}

// ---- comparisons ----

func Eq(a, b *T) *T {
	if a == b {
		return True
	}
	if a.IsConst() && b.IsConst() {
		if a.Sort == Bool {
			return B(a.IV == b.IV)
		}
		return B(a.BigVal().Cmp(b.BigVal()) == 0)
	}
	if a.Sort == Bool {
		if v, ok := a.BoolVal(); ok {
			if v {
				return b
			}
			return Not(b)
		}
		if v, ok := b.BoolVal(); ok {
			if v {
				return a
			}
			return Not(a)
		}
	} else {
		// disjoint intervals
		if !a.HiInf && !b.LoInf && a.Hi < b.Lo {
			return False
		}
		if !b.HiInf && !a.LoInf && b.Hi < a.Lo {
			return False
		}
	}
	t := newT(OEq, Bool)
	if a.ID > b.ID {
		a, b = b, a
	}
	t.Args = []*T{a, b}
	return intern(t)
}

func Ne(a, b *T) *T { return Not(Eq(a, b)) }

func Lt(a, b *T) *T {
	if a.IsConst() && b.IsConst() {
		return B(a.BigVal().Cmp(b.BigVal()) < 0)
	}
	if a == b {
		return False
	}
	if !a.HiInf && !b.LoInf && a.Hi < b.Lo {
		return True
	}
	if !a.LoInf && !b.HiInf && a.Lo >= b.Hi {
		return False
	}
	t := newT(OLt, Bool)
	t.Args = []*T{a, b}
	return intern(t)
}

func Le(a, b *T) *T {
	if a.IsConst() && b.IsConst() {
		return B(a.BigVal().Cmp(b.BigVal()) <= 0)
	}
	if a == b {
		return True
	}
	if !a.HiInf && !b.LoInf && a.Hi <= b.Lo {
		return True
	}
	if !a.LoInf && !b.HiInf && a.Lo > b.Hi {
		return False
	}
	t := newT(OLe, Bool)
	t.Args = []*T{a, b}
	return intern(t)
}

func Gt(a, b *T) *T { return Lt(b, a) }
func Ge(a, b *T) *T { return Le(b, a) }

// ---- arithmetic ----

func addOvf(a, b int64) (int64, bool) {
	c := a + b
	if (c > a) == (b > 0) {
		return c, false
	}
	return c, b != 0
}

func mulOvf(a, b int64) (int64, bool) {
	if a == 0 || b == 0 {
		return 0, false
	}
	c := a * b
	if (c < 0) == ((a < 0) != (b < 0)) && c/b == a && !(a == -1 && b == math.MinInt64) && !(b == -1 && a == math.MinInt64) {
		return c, false
	}
	return c, true
}

func Add(a, b *T) *T {
	if a.IsConst() && b.IsConst() {
		if a.Big == nil && b.Big == nil {
			if c, o := addOvf(a.IV, b.IV); !o {
				return I(c)
			}
		}
		return BigI(new(big.Int).Add(a.BigVal(), b.BigVal()))
	}
	if v, ok := a.Int64(); ok && v == 0 {
		return b
	}
	if v, ok := b.Int64(); ok && v == 0 {
		return a
	}
	// (x + c1) + c2
	if b.IsConst() && a.Op == OAdd && a.Args[1].IsConst() {
		return Add(a.Args[0], Add(a.Args[1], b))
	}
	if a.IsConst() {
		a, b = b, a
	}
	t := newT(OAdd, Int)
	t.Args = []*T{a, b}
	if a.LoInf || b.LoInf {
		t.LoInf = true
	} else if c, o := addOvf(a.Lo, b.Lo); o {
		t.LoInf = true
	} else {
		t.Lo = c
	}
	if a.HiInf || b.HiInf {
		t.HiInf = true
	} else if c, o := addOvf(a.Hi, b.Hi); o {
		t.HiInf = true
	} else {
		t.Hi = c
	}
	return intern(t)
}

func Neg(a *T) *T {
	if a.IsConst() {
		return BigI(new(big.Int).Neg(a.BigVal()))
	}
	if a.Op == ONeg {
		return a.Args[0]
	}
	t := newT(ONeg, Int)
	t.Args = []*T{a}
	if a.HiInf || a.Hi == math.MinInt64 {
		t.LoInf = true
	} else {
		t.Lo = -a.Hi
	}
	if a.LoInf || a.Lo == math.MinInt64 {
		t.HiInf = true
	} else {
		t.Hi = -a.Lo
	}
	return intern(t)
}

func Sub(a, b *T) *T {
	if a == b {
		return I(0)
	}
	if b.IsConst() {
		return Add(a, Neg(b))
	}
	if a.IsConst() && b.IsConst() {
		return BigI(new(big.Int).Sub(a.BigVal(), b.BigVal()))
	}
	t := newT(OSub, Int)
	t.Args = []*T{a, b}
	if a.LoInf || b.HiInf {
		t.LoInf = true
	} else if c, o := addOvf(a.Lo, -b.Hi); o || b.Hi == math.MinInt64 {
		t.LoInf = true
	} else {
		t.Lo = c
	}
	if a.HiInf || b.LoInf {
		t.HiInf = true
	} else if c, o := addOvf(a.Hi, -b.Lo); o || b.Lo == math.MinInt64 {
		t.HiInf = true
	} else {
		t.Hi = c
	}
	return intern(t)
}

func Mul(a, b *T) *T {
	if a.IsConst() && b.IsConst() {
		if a.Big == nil && b.Big == nil {
			if c, o := mulOvf(a.IV, b.IV); !o {
				return I(c)
			}
		}
		return BigI(new(big.Int).Mul(a.BigVal(), b.BigVal()))
	}
	if a.IsConst() {
		a, b = b, a
	}
	if v, ok := b.Int64(); ok {
		if v == 0 {
			return I(0)
		}
		if v == 1 {
			return a
		}
	}
	t := newT(OMul, Int)
	t.Args = []*T{a, b}
	if a.LoInf || a.HiInf || b.LoInf || b.HiInf {
		t.LoInf, t.HiInf = true, true
	} else {
		cs := [4][2]int64{{a.Lo, b.Lo}, {a.Lo, b.Hi}, {a.Hi, b.Lo}, {a.Hi, b.Hi}}
		first := true
		for _, c := range cs {
			p, o := mulOvf(c[0], c[1])
			if o {
				t.LoInf, t.HiInf = true, true
				break
			}
			if first || p < t.Lo {
				t.Lo = p
			}
			if first || p > t.Hi {
				t.Hi = p
			}
			first = false
		}
	}
	return intern(t)
}

// Div is SMT-LIB div; callers guarantee b is a non-zero constant or handle
// division by zero themselves.
func Div(a, b *T) *T {
	if a.IsConst() && b.IsConst() && b.BigVal().Sign() != 0 {
		q, m := new(big.Int).DivMod(a.BigVal(), b.BigVal(), new(big.Int))
		_ = m
		return BigI(q)
	}
	if v, ok := b.Int64(); ok && v == 1 {
		return a
	}
	t := newT(ODiv, Int)
	t.Args = []*T{a, b}
	if bv, ok := b.Int64(); ok && bv > 0 && !a.LoInf && !a.HiInf {
		t.Lo, t.Hi = floorDiv(a.Lo, bv), floorDiv(a.Hi, bv)
	} else {
		t.LoInf, t.HiInf = true, true
	}
	return intern(t)
}

func floorDiv(a, b int64) int64 {
	q := a / b
	if (a%b != 0) && ((a < 0) != (b < 0)) {
		q--
	}
	return q
}

func Mod(a, b *T) *T {
	if a.IsConst() && b.IsConst() && b.BigVal().Sign() != 0 {
		_, m := new(big.Int).DivMod(a.BigVal(), b.BigVal(), new(big.Int))
		return BigI(m)
	}
	if bv, ok := b.Int64(); ok && bv > 0 && !a.LoInf && !a.HiInf && a.Lo >= 0 && a.Hi < bv {
		return a
	}
	t := newT(OMod, Int)
	t.Args = []*T{a, b}
	if bv, ok := b.Int64(); ok && bv > 0 {
		t.Lo, t.Hi = 0, bv-1
	} else if b.IsConst() && b.Big != nil && b.Big.Sign() > 0 {
		t.Lo, t.HiInf = 0, true
	} else {
		t.LoInf, t.HiInf = true, true
	}
	return intern(t)
}

// BvOp is a bitwise operation on width-bit unsigned views of a and b; the
// result is the unsigned value (callers re-interpret for signed types).
func BvOp(name string, width int, a, b *T) *T {
	if a.IsConst() && b.IsConst() {
		m := new(big.Int).Lsh(big.NewInt(1), uint(width))
		m.Sub(m, big.NewInt(1))
		x := new(big.Int).And(a.BigVal(), m) // two's complement semantics in math/big And
		y := new(big.Int).And(b.BigVal(), m)
		r := new(big.Int)
		switch name {
		case "bvand":
			r.And(x, y)
		case "bvor":
			r.Or(x, y)
		case "bvxor":
			r.Xor(x, y)
		case "bvshl":
			if y.IsInt64() && y.Int64() < int64(width) {
				r.Lsh(x, uint(y.Int64()))
				r.And(r, m)
			}
		case "bvlshr":
			if y.IsInt64() && y.Int64() < int64(width) {
				r.Rsh(x, uint(y.Int64()))
			}
		}
		return BigI(r)
	}
	t := newT(OBv, Int)
	t.Name = name
	t.IV = int64(width)
	t.Args = []*T{a, b}
	t.Lo = 0
	if width < 63 {
		t.Hi = int64(1)<<uint(width) - 1
	} else {
		t.HiInf = true
		t.Hi = math.MaxInt64
	}
	return intern(t)
}

// ---- printing ----

// Printer emits SMT-LIB2 text, naming shared sub-terms with define-fun so that
// DAGs are not expanded into trees.
type Printer struct {
	declared map[string]bool // variables / functions
	defined  map[uint64]string
	Out      *strings.Builder
	jDecl    []string // journal of additions, for scoped undo
	jDef     []uint64
}

// Mark returns a position in the journal; Undo(mark) forgets everything
// declared or defined since (used around solver push/pop).
func (p *Printer) Mark() [2]int { return [2]int{len(p.jDecl), len(p.jDef)} }

func (p *Printer) Undo(m [2]int) {
	for _, k := range p.jDecl[m[0]:] {
		delete(p.declared, k)
	}
	for _, k := range p.jDef[m[1]:] {
		delete(p.defined, k)
	}
	p.jDecl, p.jDef = p.jDecl[:m[0]], p.jDef[:m[1]]
}

func NewPrinter() *Printer {
	return &Printer{declared: map[string]bool{}, defined: map[uint64]string{}, Out: &strings.Builder{}}
}

func (p *Printer) Reset() {
	p.declared = map[string]bool{}
	p.defined = map[uint64]string{}
	p.jDecl, p.jDef = nil, nil
	p.Out.Reset()
}

func sortName(s Sort) string {
	if s == Bool {
		return "Bool"
	}
	return "Int"
}

func quoteSym(s string) string {
	for _, c := range s {
		if !(c >= 'a' && c <= 'z' || c >= 'A' && c <= 'Z' || c >= '0' && c <= '9' || c == '_' || c == '.' || c == '!' || c == '$') {
			return "|" + strings.NewReplacer("|", "!", "\\", "!").Replace(s) + "|"
		}
	}
	return s
}

// Prepare emits declarations and definitions needed by t (into p.Out) and
// returns the expression text that denotes t.
func (p *Printer) Prepare(t *T) string {
	// count references to find shared nodes
	refs := map[*T]int{}
	var count func(t *T)
	count = func(t *T) {
		refs[t]++
		if refs[t] > 1 {
			return
		}
		if _, ok := p.defined[t.ID]; ok {
			return
		}
		for _, a := range t.Args {
			count(a)
		}
	}
	count(t)
	var emit func(t *T) string
	emit = func(t *T) string {
		if n, ok := p.defined[t.ID]; ok {
			return n
		}
		var s string
		switch t.Op {
		case OConst:
			if t.Sort == Bool {
				if t.IV != 0 {
					return "true"
				}
				return "false"
			}
			if t.Big != nil {
				if t.Big.Sign() < 0 {
					return "(- " + new(big.Int).Neg(t.Big).String() + ")"
				}
				return t.Big.String()
			}
			if t.IV < 0 {
				if t.IV == math.MinInt64 {
					return "(- 9223372036854775808)"
				}
				return fmt.Sprintf("(- %d)", -t.IV)
			}
			return fmt.Sprintf("%d", t.IV)
		case OVar:
			q := quoteSym(t.Name)
			if !p.declared[t.Name] {
				p.declared[t.Name] = true
				p.jDecl = append(p.jDecl, t.Name)
				fmt.Fprintf(p.Out, "(declare-const %s %s)\n", q, sortName(t.Sort))
			}
			return q
		case OApp:
			q := quoteSym(t.Name)
			args := make([]string, len(t.Args))
			for i, a := range t.Args {
				args[i] = emit(a)
			}
			if !p.declared[t.Name] {
				p.declared[t.Name] = true
				p.jDecl = append(p.jDecl, t.Name)
				ss := make([]string, len(t.Args))
				for i, a := range t.Args {
					ss[i] = sortName(a.Sort)
				}
				fmt.Fprintf(p.Out, "(declare-fun %s (%s) %s)\n", q, strings.Join(ss, " "), sortName(t.Sort))
			}
			if len(args) == 0 {
				s = q
			} else {
				s = "(" + q + " " + strings.Join(args, " ") + ")"
			}
		case OBv:
			w := t.IV
			s = fmt.Sprintf("(bv2nat (%s ((_ int2bv %d) %s) ((_ int2bv %d) %s)))", t.Name, w, emit(t.Args[0]), w, emit(t.Args[1]))
		default:
			args := make([]string, len(t.Args))
			for i, a := range t.Args {
				args[i] = emit(a)
			}
			var op string
			switch t.Op {
			case ONot:
				op = "not"
			case OAnd:
				op = "and"
			case OOr:
				op = "or"
			case OIte:
				op = "ite"
			case OEq:
				op = "="
			case OLt:
				op = "<"
			case OLe:
				op = "<="
			case OAdd:
				op = "+"
			case OSub:
				op = "-"
			case OMul:
				op = "*"
			case ODiv:
				op = "div"
			case OMod:
				op = "mod"
			case ONeg:
				op = "-"
			}
			s = "(" + op + " " + strings.Join(args, " ") + ")"
		}
		if refs[t] > 1 && len(t.Args) > 0 {
			n := fmt.Sprintf("t!%d", t.ID)
			fmt.Fprintf(p.Out, "(define-fun %s () %s %s)\n", n, sortName(t.Sort), s)
			p.defined[t.ID] = n
			p.jDef = append(p.jDef, t.ID)
			return n
		}
		return s
	}
	return emit(t)
}

// Vars returns the variables occurring in the given terms, sorted by name.
func Vars(ts ...*T) []*T {
	seen := map[*T]bool{}
	byName := map[string]*T{}
	var walk func(t *T)
	walk = func(t *T) {
		if seen[t] {
			return
		}
		seen[t] = true
		if t.Op == OVar {
			byName[t.Name] = t
		}
		for _, a := range t.Args {
			walk(a)
		}
	}
	for _, t := range ts {
		walk(t)
	}
	names := make([]string, 0, len(byName))
	for n := range byName {
		names = append(names, n)
	}
	sort.Strings(names)
	out := make([]*T, len(names))
	for i, n := range names {
		out[i] = byName[n]
	}
	return out
}

// String renders a term for diagnostics (tree form, may be large).
func (t *T) String() string {
	p := NewPrinter()
	s := p.Prepare(t)
	if p.Out.Len() > 0 {
		var defs []string
		for _, l := range strings.Split(strings.TrimSpace(p.Out.String()), "\n") {
			if strings.HasPrefix(l, "(define-fun") {
				defs = append(defs, l)
			}
		}
		if len(defs) > 0 {
			return s + " where " + strings.Join(defs, " ")
		}
	}
	return s
}

// InRange builds lo <= t <= hi without consulting t's interval (used to
// assert the interval itself).
func InRange(t *T, lo, hi int64) *T {
	a := newT(OLe, Bool)
	a.Args = []*T{I(lo), t}
	b := newT(OLe, Bool)
	b.Args = []*T{t, I(hi)}
	c := newT(OAnd, Bool)
	c.Args = []*T{a, b}
	return c
}
