package smt

import (
	"bufio"
	"fmt"
	"io"
	"math/big"
	"os"
	"os/exec"
	"strings"
	"time"
)

// SlowMS > 0 logs queries slower than that many milliseconds to stderr.
var SlowMS = 0

type Result int

const (
	Unsat Result = iota
	Sat
	Unknown
)

func (r Result) String() string {
	return [...]string{"unsat", "sat", "unknown"}[r]
}

// Solver is one long-lived solver process driven over stdin/stdout.
type Solver struct {
	Bin       string
	Args      []string
	TimeoutMS int
	Retries   int
	cmd       *exec.Cmd
	in        io.WriteCloser
	out       *bufio.Reader
	pr        *Printer
	marks     [][2]int
	Queries   int
	Time      time.Duration
	Errors    int
	LastError string
	Log       io.Writer // optional transcript
}

func NewSolver(bin string, timeoutMS int) (*Solver, error) {
	s := &Solver{Bin: bin, TimeoutMS: timeoutMS, pr: NewPrinter()}
	switch {
	case strings.Contains(bin, "cvc5"):
		s.Args = []string{"--incremental", "--lang=smt2", fmt.Sprintf("--tlimit-per=%d", timeoutMS)}
	default:
		s.Args = []string{"-in"}
	}
	if err := s.start(); err != nil {
		return nil, err
	}
	return s, nil
}

func (s *Solver) start() error {
	s.cmd = exec.Command(s.Bin, s.Args...)
	var err error
	s.in, err = s.cmd.StdinPipe()
	if err != nil {
		return err
	}
	o, err := s.cmd.StdoutPipe()
	if err != nil {
		return err
	}
	s.cmd.Stderr = s.cmd.Stdout
	s.out = bufio.NewReaderSize(o, 1<<16)
	if err := s.cmd.Start(); err != nil {
		return err
	}
	s.pr.Reset()
	s.marks = nil
	s.preamble()
	return nil
}

func (s *Solver) preamble() {
	if strings.Contains(s.Bin, "cvc5") {
		s.send("(set-logic ALL)\n(set-option :produce-models true)\n")
	} else {
		s.send(fmt.Sprintf("(set-option :timeout %d)\n", s.TimeoutMS))
	}
}

func (s *Solver) Close() {
	if s.cmd != nil {
		s.in.Close()
		s.cmd.Process.Kill()
		s.cmd.Wait()
		s.cmd = nil
	}
}

func (s *Solver) send(txt string) {
	if s.Log != nil {
		io.WriteString(s.Log, txt)
	}
	io.WriteString(s.in, txt)
}

// Reset clears all assertions and declarations.
func (s *Solver) Reset() {
	if strings.Contains(s.Bin, "cvc5") {
		// cvc5 1.0 supports (reset) too, but restarting state is cheap either way
		s.send("(reset)\n")
	} else {
		s.send("(reset)\n")
	}
	s.pr.Reset()
	s.preamble()
}

// Push opens a scope: assertions, declarations and definitions made until the
// matching Pop are forgotten.
func (s *Solver) Push() {
	s.marks = append(s.marks, s.pr.Mark())
	s.send("(push 1)\n")
}

func (s *Solver) Pop() {
	if len(s.marks) == 0 {
		return
	}
	m := s.marks[len(s.marks)-1]
	s.marks = s.marks[:len(s.marks)-1]
	s.pr.Undo(m)
	s.send("(pop 1)\n")
}

// Depth is the number of open scopes.
func (s *Solver) Depth() int { return len(s.marks) }

// Assert adds t permanently (until Reset).
func (s *Solver) Assert(t *T) {
	e := s.pr.Prepare(t)
	s.flushDefs()
	s.send("(assert " + e + ")\n")
}

func (s *Solver) flushDefs() {
	if s.pr.Out.Len() > 0 {
		s.send(s.pr.Out.String())
		s.pr.Out.Reset()
	}
}

// sync sends an echo marker and returns all output lines before it.
func (s *Solver) sync() ([]string, error) {
	s.send("(echo \"<<done>>\")\n")
	var lines []string
	for {
		l, err := s.out.ReadString('\n')
		if err != nil {
			return lines, fmt.Errorf("solver died: %v (%s)", err, strings.Join(lines, " | "))
		}
		l = strings.TrimRight(l, "\r\n")
		if strings.Contains(l, "<<done>>") {
			return lines, nil
		}
		if l != "" {
			lines = append(lines, l)
		}
	}
}

// Check decides satisfiability of the asserted terms plus extra. If want is
// non-empty and the result is sat, the values of those variables are returned.
func (s *Solver) Check(extra []*T, want []*T) (Result, map[string]*big.Int, error) {
	start := time.Now()
	defer func() {
		d := time.Since(start)
		s.Time += d
		s.Queries++
		if SlowMS > 0 && d > time.Duration(SlowMS)*time.Millisecond {
			fmt.Fprintf(os.Stderr, "slow query %.1fs (#%d)\n", d.Seconds(), s.Queries)
		}
	}()
	exprs := make([]string, len(extra))
	for i, e := range extra {
		exprs[i] = s.pr.Prepare(e)
	}
	var names []string
	for _, w := range want {
		names = append(names, s.pr.Prepare(w))
	}
	s.flushDefs()
	var b strings.Builder
	b.WriteString("(push 1)\n")
	for _, e := range exprs {
		b.WriteString("(assert " + e + ")\n")
	}
	b.WriteString("(check-sat)\n")
	s.send(b.String())
	lines, err := s.sync()
	if err != nil {
		s.Errors++
		s.LastError = err.Error()
		// restart the process so that later queries still work
		s.Close()
		if e2 := s.start(); e2 != nil {
			return Unknown, nil, e2
		}
		return Unknown, nil, err
	}
	res := Unknown
	bad := false
	for _, l := range lines {
		switch {
		case strings.HasPrefix(l, "(error"):
			bad = true
			s.LastError = l
		case l == "sat":
			res = Sat
		case l == "unsat":
			res = Unsat
		case l == "unknown" || l == "timeout":
			res = Unknown
		}
	}
	if bad {
		s.Errors++
		res = Unknown
	}
	if res == Unknown && !bad && !strings.Contains(s.Bin, "cvc5") && s.TimeoutMS > 0 {
		// one retry with six times the time limit before the query counts as undecided
		s.Retries++
		s.send(fmt.Sprintf("(set-option :timeout %d)\n(check-sat)\n", 6*s.TimeoutMS))
		ls, err := s.sync()
		s.send(fmt.Sprintf("(set-option :timeout %d)\n", s.TimeoutMS))
		if err == nil {
			for _, l := range ls {
				switch {
				case strings.HasPrefix(l, "(error"):
					s.LastError = l
				case l == "sat":
					res = Sat
				case l == "unsat":
					res = Unsat
				}
			}
		}
	}
	var model map[string]*big.Int
	if res == Sat && len(names) > 0 {
		model = map[string]*big.Int{}
		// ask in chunks to keep lines manageable
		for i := 0; i < len(names); i += 200 {
			j := i + 200
			if j > len(names) {
				j = len(names)
			}
			s.send("(get-value (" + strings.Join(names[i:j], " ") + "))\n")
			ls, err := s.sync()
			if err != nil {
				return Unknown, nil, err
			}
			txt := strings.Join(ls, " ")
			if strings.Contains(txt, "(error") {
				s.Errors++
				s.LastError = txt
				res = Unknown
				break
			}
			parseValues(txt, model)
		}
	}
	s.send("(pop 1)\n")
	return res, model, nil
}

// parseValues parses "((x 1) (y (- 2)) (b true))" into m; booleans are 0/1.
func parseValues(txt string, m map[string]*big.Int) {
	toks := tokenize(txt)
	// expect ( ( key value ) ... ) where key is a symbol or an s-expression
	i := 0
	if i < len(toks) && toks[i] == "(" {
		i++
	}
	for i < len(toks) && toks[i] == "(" {
		i++
		if i >= len(toks) {
			return
		}
		var name string
		if toks[i] == "(" {
			depth := 0
			start := i
			for i < len(toks) {
				if toks[i] == "(" {
					depth++
				} else if toks[i] == ")" {
					depth--
				}
				i++
				if depth == 0 {
					break
				}
			}
			name = strings.Join(toks[start:i], " ")
		} else {
			name = toks[i]
			i++
		}
		var v *big.Int
		v, i = parseVal(toks, i)
		if v != nil {
			m[strings.Trim(name, "|")] = v
		}
		if i < len(toks) && toks[i] == ")" {
			i++
		}
	}
}

func parseVal(toks []string, i int) (*big.Int, int) {
	if i >= len(toks) {
		return nil, i
	}
	t := toks[i]
	switch t {
	case "true":
		return big.NewInt(1), i + 1
	case "false":
		return big.NewInt(0), i + 1
	case "(":
		// (- N) possibly nested
		i++
		if i < len(toks) && toks[i] == "-" {
			v, j := parseVal(toks, i+1)
			if j < len(toks) && toks[j] == ")" {
				j++
			}
			if v != nil {
				return new(big.Int).Neg(v), j
			}
			return nil, j
		}
		// unknown structure: skip to matching paren
		depth := 1
		for i < len(toks) && depth > 0 {
			if toks[i] == "(" {
				depth++
			} else if toks[i] == ")" {
				depth--
			}
			i++
		}
		return nil, i
	}
	v, ok := new(big.Int).SetString(t, 10)
	if !ok {
		return nil, i + 1
	}
	return v, i + 1
}

func tokenize(s string) []string {
	var toks []string
	i := 0
	for i < len(s) {
		c := s[i]
		switch {
		case c == ' ' || c == '\t' || c == '\n':
			i++
		case c == '(' || c == ')':
			toks = append(toks, string(c))
			i++
		case c == '|':
			j := strings.IndexByte(s[i+1:], '|')
			if j < 0 {
				toks = append(toks, s[i:])
				return toks
			}
			toks = append(toks, s[i:i+j+2])
			i += j + 2
		default:
			j := i
			for j < len(s) && s[j] != ' ' && s[j] != '(' && s[j] != ')' && s[j] != '\n' {
				j++
			}
			toks = append(toks, s[i:j])
			i = j
		}
	}
	return toks
}
