package sym

import (
	"reflect"
	"regexp"
	"testing"

	"verif/gosym/smt"
)

// Differential validation of the regexp model on concrete strings: the
// simulation must agree with the real regexp package.
func TestNFAAgainstRegexp(t *testing.T) {
	hostPartS := `(?:[a-zA-Z0-9](?:[a-zA-Z0-9-]*[a-zA-Z0-9])?)`
	hostPortS := `(?:` + hostPartS + `(?:\.` + hostPartS + `)*\.?:[0-9]+)`
	hostDomainS := `(?:` + hostPartS + `(?:(?:\.` + hostPartS + `)+\.?|\.))`
	hostUpperS := `(?:[a-zA-Z0-9]*[A-Z][a-zA-Z0-9-]*[a-zA-Z0-9]|[a-zA-Z0-9][a-zA-Z0-9-]*[A-Z][a-zA-Z0-9]*)`
	registryS := `(?:` + hostDomainS + `|` + hostPortS + `|` + hostUpperS + `|localhost(?::[0-9]+)?)`
	repoPartS := `[a-z0-9]+(?:(?:\.|_|__|-+)[a-z0-9]+)*`
	pathS := `[/a-zA-Z0-9_\-. ~\+]+`
	tagS := `[a-zA-Z0-9_][a-zA-Z0-9._-]{0,127}`
	digestS := `[A-Za-z][A-Za-z0-9]*(?:[-_+.][A-Za-z][A-Za-z0-9]*)*[:][[:xdigit:]]{32,}`
	pats := []string{
		`^([a-z]+)://(.+)$`,
		`^(` + registryS + `)$`,
		`^(?:(` + registryS + `)/)?(` + repoPartS + `(?:/` + repoPartS + `)*)(?::(` + tagS + `))?(?:@(` + digestS + `))?$`,
		`^(` + pathS + `)(?::(` + tagS + `))?(?:@(` + digestS + `))?$`,
		`^[a-f0-9]{64}$`,
		`^[A-Za-z0-9_-]+$`,
		`^(a|ab)(c|bcd)(d*)$`,
		`^(a*)(a*)$`,
		`^(a*?)(a*)$`,
	}
	subjects := []string{
		"", "a", "alpine", "alpine:latest", "library/alpine:3.1", "docker.io/library/alpine", "localhost/repo", "localhost:5000/repo:tag",
		"example.com/group/image:v1", "example.com:5000/a/b/c@sha256:0123456789abcdef0123456789abcdef0123456789abcdef0123456789abcdef",
		"EXAMPLE/repo", "Example.com/repo", "a.b/c", "a/b.c", "a__b", "a___b", "a--b", "a-_b", "a:b:c", "a@b", "a/", "/a", "a//b", "a b", "a:-b",
		"ocidir://path/to/dir:tag", "ocidir://./x", "reg://a", "x://", "://a", "path/to dir:v1", "../x:y", "abcd", "abbcd", "aaa", "aa",
		"0123456789abcdef0123456789abcdef0123456789abcdef0123456789abcdef", "repo:TAG_1.2-x", "repo@sha256:abc", "10.0.0.1:5000/r", "host./r", "./r",
	}
	p := &Path{eng: &Engine{Uses: map[string]bool{}}}
	p.ds = &dstream{}
	for _, pat := range pats {
		re := &reModel{pat: pat, re: regexp.MustCompile(pat)}
		for _, s := range subjects {
			bs := make([]*smt.T, len(s))
			for i := range bs {
				bs[i] = smt.I(int64(s[i]))
			}
			// build a rope of single-byte segments so that the model path is taken
			str := Str{N: len(s)}
			for i := range bs {
				str.Segs = append(str.Segs, Seg{S: string(s[i])})
			}
			wantM := re.re.MatchString(s)
			gotM, _ := p.nfaMatch(re, str).BoolVal()
			if gotM != wantM {
				t.Errorf("match %q on %q: got %v want %v", pat, s, gotM, wantM)
			}
			want := re.re.FindStringSubmatch(s)
			got := p.nfaSubmatch(re, str)
			var gs []string
			if gv, ok := got.([]Value); ok && gv != nil {
				for _, g := range gv {
					c := ""
					for _, sg := range g.(Str).Segs {
						c += sg.S
					}
					gs = append(gs, c)
				}
			}
			if !reflect.DeepEqual(gs, want) && !(len(gs) == 0 && len(want) == 0) {
				t.Errorf("submatch %q on %q: got %q want %q", pat, s, gs, want)
			}
		}
	}
}
