package sym

import (
	"fmt"
	"go/constant"
	"go/token"
	"go/types"
	"math"
	"math/big"
	"runtime"
	"strings"
	"unicode/utf8"

	"golang.org/x/tools/go/ssa"
	"verif/gosym/smt"
)

func runtimeCallers(skip int, pcs []uintptr) int { return runtime.Callers(skip, pcs) }
func framesOf(pcs []uintptr) []string {
	var out []string
	fs := runtime.CallersFrames(pcs)
	for {
		f, more := fs.Next()
		name := f.Function
		if i := strings.LastIndex(name, "/"); i >= 0 {
			name = name[i+1:]
		}
		out = append(out, fmt.Sprintf("%s:%d", name, f.Line))
		if !more {
			break
		}
	}
	return out
}

func basicOf(t types.Type) *types.Basic {
	b, _ := t.Underlying().(*types.Basic)
	return b
}

// intInfo returns width and signedness of an integer kind (64-bit platform).
func intInfo(b *types.Basic) (bits int, signed bool) {
	switch b.Kind() {
	case types.Int8:
		return 8, true
	case types.Int16:
		return 16, true
	case types.Int32, types.UntypedRune:
		return 32, true
	case types.Int64, types.Int, types.UntypedInt:
		return 64, true
	case types.Uint8:
		return 8, false
	case types.Uint16:
		return 16, false
	case types.Uint32:
		return 32, false
	case types.Uint64, types.Uint, types.Uintptr:
		return 64, false
	}
	panic("intInfo: " + b.String())
}

var pow2 [130]*big.Int

func init() {
	for i := range pow2 {
		pow2[i] = new(big.Int).Lsh(big.NewInt(1), uint(i))
	}
}

// fit re-imposes machine width: returns t wrapped into the range of b.
func fit(b *types.Basic, t *smt.T) *smt.T {
	bits, signed := intInfo(b)
	var lo, hi int64
	hiBig := false
	if signed {
		if bits == 64 {
			lo, hi = math.MinInt64, math.MaxInt64
		} else {
			lo, hi = -(1 << uint(bits-1)), 1<<uint(bits-1)-1
		}
	} else {
		lo = 0
		if bits == 64 {
			hi, hiBig = math.MaxInt64, true
		} else {
			hi = 1<<uint(bits) - 1
		}
	}
	if t.IsConst() {
		v := t.BigVal()
		m := pow2[bits]
		if signed {
			half := pow2[bits-1]
			r := new(big.Int).Add(v, half)
			r.Mod(r, m)
			r.Sub(r, half)
			return smt.BigI(r)
		}
		return smt.BigI(new(big.Int).Mod(v, m))
	}
	inLo := !t.LoInf && t.Lo >= lo
	inHi := !t.HiInf && (t.Hi <= hi || hiBig)
	if signed && bits == 64 {
		// int64 bounds are always inside when finite
		inLo, inHi = !t.LoInf, !t.HiInf
	}
	if inLo && inHi {
		return t
	}
	m := smt.BigI(pow2[bits])
	var r *smt.T
	if signed {
		half := smt.BigI(pow2[bits-1])
		r = smt.Sub(smt.Mod(smt.Add(t, half), m), half)
		if r.Op != smt.OConst {
			r.Lo, r.Hi, r.LoInf, r.HiInf = lo, hi, false, false
		}
	} else {
		r = smt.Mod(t, m)
		if r.Op != smt.OConst {
			r.Lo, r.LoInf = 0, false
			if hiBig {
				r.HiInf = true
			} else {
				r.Hi, r.HiInf = hi, false
			}
		}
	}
	return r
}

func constValue(c *ssa.Const) Value {
	if c.Value == nil {
		return zero(c.Type())
	}
	if t, ok := c.Type().Underlying().(*types.Basic); ok {
		switch {
		case t.Info()&types.IsBoolean != 0:
			return smt.B(constant.BoolVal(c.Value))
		case t.Info()&types.IsInteger != 0:
			v := constant.ToInt(c.Value)
			if i, ok := constant.Int64Val(v); ok {
				return smt.I(i)
			}
			if u, ok := constant.Uint64Val(v); ok {
				return smt.U64(u)
			}
			bi, _ := new(big.Int).SetString(v.ExactString(), 10)
			return smt.BigI(bi)
		case t.Info()&types.IsFloat != 0:
			f, _ := constant.Float64Val(constant.ToFloat(c.Value))
			if t.Kind() == types.Float32 {
				return float64(float32(f))
			}
			return f
		case t.Info()&types.IsString != 0:
			if c.Value.Kind() == constant.String {
				return CStr(constant.StringVal(c.Value))
			}
			// string(int) constant conversion
			i, _ := constant.Int64Val(constant.ToInt(c.Value))
			return CStr(string(rune(i)))
		case t.Info()&types.IsComplex != 0:
			re, _ := constant.Float64Val(constant.Real(c.Value))
			im, _ := constant.Float64Val(constant.Imag(c.Value))
			return complex(re, im)
		}
	}
	panic(fmt.Sprintf("constValue: %s", c))
}

// ---- concretisation helpers ----

// conc turns a Fin string into a concrete one by forking over its index.
func (p *Path) conc(s Str) Str {
	if s.Fin == nil {
		return s
	}
	if c, ok := s.Concrete(); ok {
		return CStr(c)
	}
	i := p.concInt(s.Fin.Idx, 0, int64(len(s.Fin.Choices)-1))
	return CStr(s.Fin.Choices[i])
}

// index checks 0 <= idx < n (forking into a runtime panic when it can fail)
// and returns a concrete index.
func (p *Path) index(fr *Frame, instr ssa.Instruction, idx *smt.T, n int) int {
	if v, ok := idx.Int64(); ok {
		if v < 0 || v >= int64(n) {
			p.rtPanic(fr, instr, fmt.Sprintf("index out of range [%d] with length %d", v, n))
		}
		return int(v)
	}
	inb := smt.And(smt.Le(smt.I(0), idx), smt.Lt(idx, smt.I(int64(n))))
	if !p.Branch(inb) {
		p.rtPanic(fr, instr, fmt.Sprintf("index out of range [symbolic] with length %d", n))
	}
	return int(p.concInt(idx, 0, int64(n-1)))
}

// ---- operators ----

func (p *Path) binop(fr *Frame, instr ssa.Instruction, op token.Token, t types.Type, x, y Value) Value {
	switch xv := x.(type) {
	case *smt.T:
		yv := y.(*smt.T)
		b := basicOf(t)
		if b == nil {
			panic(fmt.Sprintf("binop on non-basic %s", t))
		}
		if b.Info()&types.IsBoolean != 0 {
			switch op {
			case token.EQL:
				return smt.Eq(xv, yv)
			case token.NEQ:
				return smt.Ne(xv, yv)
			case token.AND, token.LAND:
				return smt.And(xv, yv)
			case token.OR, token.LOR:
				return smt.Or(xv, yv)
			}
			panic("bool binop " + op.String())
		}
		return p.intBinop(fr, instr, op, b, xv, yv)
	case float64:
		yv := y.(float64)
		f32 := basicOf(t) != nil && basicOf(t).Kind() == types.Float32
		r := func(v float64) Value {
			if f32 {
				return float64(float32(v))
			}
			return v
		}
		switch op {
		case token.ADD:
			return r(xv + yv)
		case token.SUB:
			return r(xv - yv)
		case token.MUL:
			return r(xv * yv)
		case token.QUO:
			return r(xv / yv)
		case token.EQL:
			return smt.B(xv == yv)
		case token.NEQ:
			return smt.B(xv != yv)
		case token.LSS:
			return smt.B(xv < yv)
		case token.LEQ:
			return smt.B(xv <= yv)
		case token.GTR:
			return smt.B(xv > yv)
		case token.GEQ:
			return smt.B(xv >= yv)
		}
		panic("float binop " + op.String())
	case Str:
		yv := y.(Str)
		switch op {
		case token.ADD:
			if (xv.Fin != nil || yv.Fin != nil) && !finConcatOK(xv, yv) {
				xv, yv = p.conc(xv), p.conc(yv)
			}
			return strConcat(xv, yv)
		case token.EQL:
			return strEq(xv, yv)
		case token.NEQ:
			return smt.Not(strEq(xv, yv))
		case token.LSS:
			return strLess(p.conc(xv), p.conc(yv))
		case token.GTR:
			return strLess(p.conc(yv), p.conc(xv))
		case token.LEQ:
			return smt.Not(strLess(p.conc(yv), p.conc(xv)))
		case token.GEQ:
			return smt.Not(strLess(p.conc(xv), p.conc(yv)))
		}
		panic("string binop " + op.String())
	}
	// reference / aggregate comparisons
	switch op {
	case token.EQL:
		return p.eqVal(t, x, y)
	case token.NEQ:
		return smt.Not(p.eqVal(t, x, y))
	}
	panic(fmt.Sprintf("binop %s on %T", op, x))
}

func finConcatOK(a, b Str) bool {
	if a.Fin != nil && b.Fin == nil {
		_, ok := b.Concrete()
		return ok
	}
	if b.Fin != nil && a.Fin == nil {
		_, ok := a.Concrete()
		return ok
	}
	return a.Fin != nil && b.Fin != nil && a.Fin.Idx == b.Fin.Idx
}

// eqVal handles ==, including comparisons against nil for slices/maps/funcs.
func (p *Path) eqVal(t types.Type, x, y Value) *smt.T {
	switch xv := x.(type) {
	case []Value:
		yv := y.([]Value)
		return smt.B(xv == nil && yv == nil)
	case *ssa.Function:
		if xv == nil {
			return smt.B(isNilFunc(y))
		}
		return smt.B(false == isNilFunc(y) && x == y)
	case *Closure, *ssa.Builtin, *Native:
		return smt.B(isNilFunc(y) == false && x == y)
	}
	return equals(t, x, y)
}

func isNilFunc(v Value) bool {
	f, ok := v.(*ssa.Function)
	return ok && f == nil
}

func (p *Path) intBinop(fr *Frame, instr ssa.Instruction, op token.Token, b *types.Basic, x, y *smt.T) Value {
	switch op {
	case token.ADD:
		return fit(b, smt.Add(x, y))
	case token.SUB:
		return fit(b, smt.Sub(x, y))
	case token.MUL:
		return fit(b, smt.Mul(x, y))
	case token.QUO, token.REM:
		if !y.IsConst() {
			if p.Branch(smt.Eq(y, smt.I(0))) {
				p.rtPanic(fr, instr, "integer divide by zero")
			}
		} else if y.BigVal().Sign() == 0 {
			p.rtPanic(fr, instr, "integer divide by zero")
		}
		q := truncDiv(x, y)
		if op == token.QUO {
			return fit(b, q)
		}
		if nonneg(x) && pos(y) {
			return smt.Mod(x, y)
		}
		return fit(b, smt.Sub(x, smt.Mul(y, q)))
	case token.EQL:
		return smt.Eq(x, y)
	case token.NEQ:
		return smt.Ne(x, y)
	case token.LSS:
		return smt.Lt(x, y)
	case token.LEQ:
		return smt.Le(x, y)
	case token.GTR:
		return smt.Lt(y, x)
	case token.GEQ:
		return smt.Le(y, x)
	case token.SHL:
		n := p.concInt(y, 0, 1<<16)
		bits, _ := intInfo(b)
		if n >= int64(bits) {
			return smt.I(0)
		}
		return fit(b, smt.Mul(x, smt.BigI(pow2[n])))
	case token.SHR:
		n := p.concInt(y, 0, 1<<16)
		bits, signed := intInfo(b)
		if n >= int64(bits) {
			if signed {
				return smt.Ite(smt.Lt(x, smt.I(0)), smt.I(-1), smt.I(0))
			}
			return smt.I(0)
		}
		return smt.Div(x, smt.BigI(pow2[n]))
	case token.AND, token.OR, token.XOR, token.AND_NOT:
		return p.bitop(op, b, x, y)
	}
	panic("intBinop " + op.String())
}

func nonneg(t *smt.T) bool { return !t.LoInf && t.Lo >= 0 }
func pos(t *smt.T) bool    { return !t.LoInf && t.Lo > 0 }

// truncDiv is Go's truncated division in terms of SMT floor division.
func truncDiv(x, y *smt.T) *smt.T {
	if nonneg(x) && pos(y) {
		return smt.Div(x, y)
	}
	if x.IsConst() && y.IsConst() {
		return smt.BigI(new(big.Int).Quo(x.BigVal(), y.BigVal()))
	}
	absDiv := func(a, b *smt.T) *smt.T { return smt.Div(a, b) }
	z := smt.I(0)
	return smt.Ite(smt.Le(z, x),
		smt.Ite(smt.Lt(z, y), absDiv(x, y), smt.Neg(absDiv(x, smt.Neg(y)))),
		smt.Ite(smt.Lt(z, y), smt.Neg(absDiv(smt.Neg(x), y)), absDiv(smt.Neg(x), smt.Neg(y))))
}

func isMask(v *big.Int) (int, bool) {
	// v == 2^k - 1 ?
	if v.Sign() < 0 {
		return 0, false
	}
	w := new(big.Int).Add(v, big.NewInt(1))
	if w.BitLen() > 0 && new(big.Int).And(w, v).Sign() == 0 {
		return w.BitLen() - 1, true
	}
	return 0, false
}

func (p *Path) bitop(op token.Token, b *types.Basic, x, y *smt.T) Value {
	bits, signed := intInfo(b)
	if x.IsConst() && y.IsConst() {
		xv, yv := x.BigVal(), y.BigVal()
		r := new(big.Int)
		switch op {
		case token.AND:
			r.And(xv, yv)
		case token.OR:
			r.Or(xv, yv)
		case token.XOR:
			r.Xor(xv, yv)
		case token.AND_NOT:
			r.AndNot(xv, yv)
		}
		return fit(b, smt.BigI(r))
	}
	if op == token.AND {
		if x.IsConst() {
			x, y = y, x
		}
		if y.IsConst() {
			if k, ok := isMask(y.BigVal()); ok {
				return smt.Mod(x, smt.BigI(pow2[k]))
			}
			if y.BigVal().Sign() == 0 {
				return smt.I(0)
			}
		}
	}
	if (op == token.OR || op == token.XOR) && y.IsConst() && y.BigVal().Sign() == 0 {
		return x
	}
	if (op == token.OR || op == token.XOR) && x.IsConst() && x.BigVal().Sign() == 0 {
		return y
	}
	ux, uy := x, y
	if signed {
		ux, uy = smt.Mod(x, smt.BigI(pow2[bits])), smt.Mod(y, smt.BigI(pow2[bits]))
	}
	var r *smt.T
	switch op {
	case token.AND:
		r = smt.BvOp("bvand", bits, ux, uy)
	case token.OR:
		r = smt.BvOp("bvor", bits, ux, uy)
	case token.XOR:
		r = smt.BvOp("bvxor", bits, ux, uy)
	case token.AND_NOT:
		ny := smt.Sub(smt.BigI(new(big.Int).Sub(pow2[bits], big.NewInt(1))), uy)
		r = smt.BvOp("bvand", bits, ux, ny)
	}
	return fit(b, r)
}

func (p *Path) unop(fr *Frame, instr *ssa.UnOp, x Value) Value {
	switch instr.Op {
	case token.ARROW:
		v, ok := p.chanRecv(fr, x.(*Chan), instr.X.Type().Underlying().(*types.Chan).Elem())
		if !instr.CommaOk {
			return v
		}
		return Tuple{v, smt.B(ok)}
	case token.SUB:
		switch x := x.(type) {
		case *smt.T:
			return fit(basicOf(instr.Type()), smt.Neg(x))
		case float64:
			return -x
		}
	case token.MUL:
		ptr := x.(*Value)
		if ptr == nil {
			p.rtPanic(fr, instr, "invalid memory address or nil pointer dereference")
		}
		return load(ptr)
	case token.NOT:
		return smt.Not(x.(*smt.T))
	case token.XOR:
		b := basicOf(instr.Type())
		bits, signed := intInfo(b)
		xv := x.(*smt.T)
		if signed {
			return fit(b, smt.Sub(smt.I(-1), xv))
		}
		return smt.Sub(smt.BigI(new(big.Int).Sub(pow2[bits], big.NewInt(1))), xv)
	}
	panic(fmt.Sprintf("invalid unary op %s %T", instr.Op, x))
}

// ---- slices, maps, type assertions ----

func (p *Path) slice(fr *Frame, instr *ssa.Slice, x, lo, hi, max Value) Value {
	var Len, Cap int
	switch x := x.(type) {
	case Str:
		x = p.conc(x)
		Len = x.N
		Cap = Len
	case []Value:
		Len, Cap = len(x), cap(x)
	case *Value:
		if x == nil {
			p.rtPanic(fr, instr, "invalid memory address or nil pointer dereference")
		}
		a := (*x).(Array)
		Len, Cap = len(a), cap(a)
	}
	l, h, m := 0, Len, Cap
	bound := func(v Value, limit int) int {
		t := v.(*smt.T)
		if c, ok := t.Int64(); ok {
			return int(c)
		}
		// fork over feasible values, including an out-of-range representative
		inb := smt.And(smt.Le(smt.I(0), t), smt.Le(t, smt.I(int64(limit))))
		if !p.Branch(inb) {
			p.rtPanic(fr, instr, "slice bounds out of range [symbolic]")
		}
		return int(p.concInt(t, 0, int64(limit)))
	}
	if max != nil {
		m = bound(max, Cap)
	}
	if hi != nil {
		h = bound(hi, m)
	}
	if _, isStr := x.(Str); isStr && hi != nil && h > Len {
		p.rtPanic(fr, instr, fmt.Sprintf("slice bounds out of range [:%d] with length %d", h, Len))
	}
	if lo != nil {
		l = bound(lo, h)
	}
	if l < 0 || h < l || m < h || m > Cap {
		p.rtPanic(fr, instr, fmt.Sprintf("slice bounds out of range [%d:%d:%d] with capacity %d", l, h, m, Cap))
	}
	switch x := x.(type) {
	case Str:
		return p.conc(x).Slice(l, h)
	case []Value:
		if x == nil && l == 0 && h == 0 {
			return []Value(nil)
		}
		return x[l:h:m]
	case *Value:
		return []Value((*x).(Array))[l:h:m]
	}
	panic(fmt.Sprintf("slice: unexpected X type: %T", x))
}

func (p *Path) mapFind(m *Map, key Value) int {
	for i, k := range m.Keys {
		if p.Branch(equals(m.KT, k, key)) {
			return i
		}
	}
	return -1
}

func (p *Path) mapUpdate(m *Map, key, val Value) {
	if i := p.mapFind(m, key); i >= 0 {
		m.Vals[i] = val
		return
	}
	m.Keys = append(m.Keys, copyVal(key))
	m.Vals = append(m.Vals, val)
}

func (p *Path) mapDelete(m *Map, key Value) {
	if m == nil {
		return
	}
	if i := p.mapFind(m, key); i >= 0 {
		m.Keys = append(m.Keys[:i:i], m.Keys[i+1:]...)
		m.Vals = append(m.Vals[:i:i], m.Vals[i+1:]...)
	}
}

func (p *Path) lookup(fr *Frame, instr *ssa.Lookup, x, idx Value) Value {
	switch x := x.(type) {
	case *Map:
		var v Value
		ok := false
		if x != nil {
			if i := p.mapFind(x, idx); i >= 0 {
				v, ok = copyVal(x.Vals[i]), true
			}
		}
		if !ok {
			v = zero(instr.X.Type().Underlying().(*types.Map).Elem())
		}
		if instr.CommaOk {
			return Tuple{v, smt.B(ok)}
		}
		return v
	case Str:
		x = p.conc(x)
		i := p.index(fr, instr, idx.(*smt.T), x.N)
		return x.At(i)
	}
	panic(fmt.Sprintf("unexpected x type in Lookup: %T", x))
}

func (p *Path) typeAssert(fr *Frame, instr *ssa.TypeAssert, itf Iface) Value {
	var v Value
	err := ""
	if itf.T == nil {
		err = fmt.Sprintf("interface conversion: interface is nil, not %s", instr.AssertedType)
	} else if idst, ok := instr.AssertedType.Underlying().(*types.Interface); ok {
		v = itf
		if meth, _ := types.MissingMethod(itf.T, idst, true); meth != nil {
			err = fmt.Sprintf("interface conversion: %v is not %v: missing method %s", itf.T, idst, meth.Name())
		}
	} else if types.Identical(itf.T, instr.AssertedType) {
		v = itf.V
	} else {
		err = fmt.Sprintf("interface conversion: interface is %s, not %s", itf.T, instr.AssertedType)
	}
	if err != "" {
		if !instr.CommaOk {
			p.rtPanic(fr, instr, err)
		}
		return Tuple{zero(instr.AssertedType), smt.False}
	}
	if instr.CommaOk {
		return Tuple{v, smt.True}
	}
	return v
}

// ---- range ----

type iter interface{ next() Tuple }

type strIter struct {
	p *Path
	s Str
	i int
}

func (it *strIter) next() Tuple {
	if it.i >= it.s.N {
		return Tuple{smt.False, smt.I(0), smt.I(0)}
	}
	// concrete run: decode UTF-8 natively
	b := it.s.At(it.i)
	if c, ok := b.Int64(); ok && c >= 0x80 {
		// gather following concrete bytes
		var buf []byte
		for j := it.i; j < it.s.N && j < it.i+4; j++ {
			if cj, ok := it.s.At(j).Int64(); ok {
				buf = append(buf, byte(cj))
			} else {
				break
			}
		}
		r, sz := utf8.DecodeRune(buf)
		k := it.i
		it.i += sz
		return Tuple{smt.True, smt.I(int64(k)), smt.I(int64(r))}
	}
	it.p.assumeASCII(b)
	k := it.i
	it.i++
	return Tuple{smt.True, smt.I(int64(k)), b}
}

type mapIter struct {
	keys, vals []Value
	i          int
}

func (it *mapIter) next() Tuple {
	if it.i >= len(it.keys) {
		return Tuple{smt.False, nil, nil}
	}
	k, v := it.keys[it.i], it.vals[it.i]
	it.i++
	return Tuple{smt.True, copyVal(k), copyVal(v)}
}

func (p *Path) rangeIter(fr *Frame, x Value, t types.Type) iter {
	switch x := x.(type) {
	case *Map:
		if x == nil {
			return &mapIter{}
		}
		return &mapIter{keys: append([]Value(nil), x.Keys...), vals: append([]Value(nil), x.Vals...)}
	case Str:
		return &strIter{p: p, s: p.conc(x)}
	}
	panic(fmt.Sprintf("cannot range over %T", x))
}

// assumeASCII constrains a symbolic byte that is decoded as a rune.
func (p *Path) assumeASCII(b *smt.T) {
	if !b.HiInf && b.Hi < 0x80 {
		return
	}
	p.eng.noteUse("assume:ASCII-only strings where runes are decoded")
	p.Assume(smt.Lt(b, smt.I(0x80)))
}

// ---- conversions ----

func (p *Path) conv(fr *Frame, instr ssa.Instruction, tdst, tsrc types.Type, x Value) Value {
	ut_src := tsrc.Underlying()
	ut_dst := tdst.Underlying()
	switch ut_dst.(type) {
	case *types.Signature, *types.Pointer, *types.Chan, *types.Map, *types.Struct, *types.Array, *types.Interface:
		return x
	}
	switch ut_src := ut_src.(type) {
	case *types.Pointer:
		switch ut_dst := ut_dst.(type) {
		case *types.Basic:
			if ut_dst.Kind() == types.UnsafePointer {
				return x
			}
		}
	case *types.Slice:
		// []byte or []rune -> string
		xs := x.([]Value)
		switch ut_src.Elem().Underlying().(*types.Basic).Kind() {
		case types.Byte:
			return bytesToStr(xs)
		case types.Rune:
			var bl builder
			for _, r := range xs {
				rt := r.(*smt.T)
				if c, ok := rt.Int64(); ok {
					bl.addStr(CStr(string(rune(c))))
				} else {
					p.assumeASCII(rt)
					bl.addByte(rt)
				}
			}
			return bl.str()
		}
	case *types.Basic:
		if dst, ok := ut_dst.(*types.Slice); ok && ut_src.Info()&types.IsString != 0 {
			s := p.conc(x.(Str))
			switch dst.Elem().Underlying().(*types.Basic).Kind() {
			case types.Rune:
				if c, ok := s.Concrete(); ok {
					var out []Value
					for _, r := range c {
						out = append(out, smt.I(int64(r)))
					}
					return out
				}
				bs := s.toBytes()
				for _, b := range bs {
					if t, ok := b.(*smt.T); ok {
						if c, isc := t.Int64(); isc && c >= 0x80 {
							panic(abort("unsupported: non-ASCII constant in symbolic string to []rune"))
						}
						p.assumeASCII(t)
					} else {
						panic(abort("unsupported: opaque token to []rune"))
					}
				}
				return bs
			case types.Byte:
				bs := s.toBytes()
				if bs == nil {
					bs = []Value{}
				}
				return bs
			}
		}
		if ut_src.Kind() == types.UnsafePointer {
			return x
		}
		dst, ok := ut_dst.(*types.Basic)
		if !ok {
			break
		}
		// string(int)
		if dst.Info()&types.IsString != 0 {
			if ut_src.Info()&types.IsInteger != 0 {
				t := x.(*smt.T)
				if c, ok := t.Int64(); ok {
					return CStr(string(rune(c)))
				}
				p.assumeASCII(t)
				p.Assume(smt.Le(smt.I(0), t))
				return BytesStr([]*smt.T{t})
			}
			return x
		}
		switch {
		case ut_src.Info()&types.IsInteger != 0 && dst.Info()&types.IsInteger != 0:
			return fit(dst, x.(*smt.T))
		case ut_src.Info()&types.IsInteger != 0 && dst.Info()&types.IsFloat != 0:
			t := x.(*smt.T)
			if !t.IsConst() {
				panic(abort("unsupported: symbolic int to float at " + fr.pos(instr)))
			}
			f, _ := new(big.Float).SetInt(t.BigVal()).Float64()
			if dst.Kind() == types.Float32 {
				return float64(float32(f))
			}
			return f
		case ut_src.Info()&types.IsFloat != 0 && dst.Info()&types.IsInteger != 0:
			f := x.(float64)
			bi, _ := new(big.Float).SetFloat64(math.Trunc(f)).Int(nil)
			return fit(dst, smt.BigI(bi))
		case ut_src.Info()&types.IsFloat != 0 && dst.Info()&types.IsFloat != 0:
			if dst.Kind() == types.Float32 {
				return float64(float32(x.(float64)))
			}
			return x
		case ut_src.Info()&types.IsBoolean != 0 && dst.Info()&types.IsBoolean != 0:
			return x
		}
	}
	panic(abort(fmt.Sprintf("unsupported: conversion %s -> %s", tsrc, tdst)))
}

// ---- builtins ----

func (p *Path) callBuiltin(caller *Frame, callpos token.Pos, fn *ssa.Builtin, args []Value) Value {
	switch fn.Name() {
	case "append":
		if len(args) == 1 {
			return args[0]
		}
		if s, ok := args[1].(Str); ok {
			args[1] = p.conc(s).toBytes()
		}
		a0 := args[0].([]Value)
		a1 := args[1].([]Value)
		if len(a1) == 0 {
			return a0
		}
		// emulate Go's append aliasing: reuse capacity when available
		if len(a0)+len(a1) <= cap(a0) {
			r := a0[:len(a0)+len(a1)]
			for i, v := range a1 {
				r[len(a0)+i] = copyVal(v)
			}
			return r
		}
		ncap := len(a0) + len(a1)
		if c2 := 2 * cap(a0); c2 > ncap && cap(a0) < 256 {
			ncap = c2
		} else if cap(a0) >= 256 {
			if c3 := cap(a0) + cap(a0)/4 + 192; c3 > ncap {
				ncap = c3
			}
		}
		r := make([]Value, len(a0)+len(a1), ncap)
		copy(r, a0)
		for i, v := range a1 {
			r[len(a0)+i] = copyVal(v)
		}
		// fill spare capacity with zero values lazily: elements beyond len are
		// only reachable by re-slicing, so give them a sane zero
		if ncap > len(r) {
			var z Value
			if len(r) > 0 {
				z = zeroLike(r[0])
			}
			full := r[:ncap]
			for i := len(r); i < ncap; i++ {
				full[i] = copyVal(z)
			}
		}
		return r
	case "copy":
		dst := args[0].([]Value)
		var src []Value
		if s, ok := args[1].(Str); ok {
			src = p.conc(s).toBytes()
		} else {
			src = args[1].([]Value)
		}
		n := min(len(dst), len(src))
		// handle overlap like memmove
		tmp := make([]Value, n)
		for i := 0; i < n; i++ {
			tmp[i] = copyVal(src[i])
		}
		copy(dst, tmp)
		return smt.I(int64(n))
	case "close":
		p.chanClose(caller, args[0].(*Chan))
		return nil
	case "delete":
		p.mapDelete(args[0].(*Map), args[1])
		return nil
	case "print", "println":
		return nil
	case "len":
		switch x := args[0].(type) {
		case Str:
			return strLen(x)
		case Array:
			return smt.I(int64(len(x)))
		case *Value:
			return smt.I(int64(len((*x).(Array))))
		case []Value:
			return smt.I(int64(len(x)))
		case *Map:
			if x == nil {
				return smt.I(0)
			}
			return smt.I(int64(len(x.Keys)))
		case *Chan:
			if x == nil {
				return smt.I(0)
			}
			return smt.I(int64(len(x.Buf)))
		}
		panic(fmt.Sprintf("len: illegal operand: %T", args[0]))
	case "cap":
		switch x := args[0].(type) {
		case Array:
			return smt.I(int64(cap(x)))
		case *Value:
			return smt.I(int64(cap((*x).(Array))))
		case []Value:
			return smt.I(int64(cap(x)))
		case *Chan:
			if x == nil {
				return smt.I(0)
			}
			return smt.I(int64(x.Cap))
		}
		panic(fmt.Sprintf("cap: illegal operand: %T", args[0]))
	case "min", "max":
		isMin := fn.Name() == "min"
		acc := args[0]
		for _, a := range args[1:] {
			switch x := acc.(type) {
			case *smt.T:
				y := a.(*smt.T)
				if isMin {
					acc = smt.Ite(smt.Lt(y, x), y, x)
				} else {
					acc = smt.Ite(smt.Lt(x, y), y, x)
				}
			case float64:
				y := a.(float64)
				if isMin {
					acc = math.Min(x, y)
				} else {
					acc = math.Max(x, y)
				}
			case Str:
				y := p.conc(a.(Str))
				x = p.conc(x)
				less := p.Branch(strLess(y, x))
				if less == isMin {
					acc = y
				}
			}
		}
		return acc
	case "clear":
		switch x := args[0].(type) {
		case *Map:
			if x != nil {
				x.Keys, x.Vals = nil, nil
			}
		case []Value:
			for i := range x {
				x[i] = zeroLike(x[i])
			}
		}
		return nil
	case "panic":
		panic(targetPanic{v: args[0], pos: p.eng.Prog.Fset.Position(callpos).String()})
	case "recover":
		return doRecover(caller)
	case "ssa:wrapnilchk":
		recv := args[0]
		if ptr, ok := recv.(*Value); ok && ptr == nil {
			recvType := args[1].(Str)
			methodName := args[2].(Str)
			rs, _ := recvType.Concrete()
			ms, _ := methodName.Concrete()
			panic(targetPanic{v: Iface{T: p.eng.runtimeErrorString, V: CStr(fmt.Sprintf("value method %s.%s called using nil *%s pointer", rs, ms, rs))}})
		}
		return recv
	case "ssa:deferstack":
		return &caller.defers
	case "real", "imag", "complex":
		panic(abort("unsupported: complex numbers"))
	}
	panic("unknown built-in: " + fn.Name())
}

// zeroLike returns a zero value shaped like v (used where the static element
// type is not at hand).
func zeroLike(v Value) Value {
	switch v := v.(type) {
	case *smt.T:
		if v.Sort == smt.Bool {
			return smt.False
		}
		return smt.I(0)
	case *AtomByte:
		return smt.I(0)
	case float64:
		return float64(0)
	case Str:
		return Str{}
	case *Value:
		return (*Value)(nil)
	case []Value:
		return []Value(nil)
	case Iface:
		return Iface{}
	case *Map:
		return (*Map)(nil)
	case *Chan:
		return (*Chan)(nil)
	case Struct:
		s := make(Struct, len(v))
		for i := range v {
			s[i] = zeroLike(v[i])
		}
		return s
	case Array:
		s := make(Array, len(v))
		for i := range v {
			s[i] = zeroLike(v[i])
		}
		return s
	case *ssa.Function, *Closure, *Native:
		return (*ssa.Function)(nil)
	case nil:
		return nil
	}
	return nil
}
