package sym

import (
	"bytes"
	"encoding/base64"
	"encoding/json"
	"fmt"
	"go/types"
	"reflect"
	"sort"
	"strconv"
	"strings"

	"verif/gosym/smt"
)

// JSON model: a real JSON encoder/decoder, type-directed by go/types (struct
// tags, omitempty, embedded structs, maps, slices, pointers, Marshaler /
// TextMarshaler methods executed by the interpreter), working on ropes so
// that symbolic bytes and opaque tokens (digests, decimal renderings) flow
// through the text unchanged. Concrete parts are byte-exact with
// encoding/json for the ASCII subset.

type jsonErr struct{ msg string }

func registerJSON(e *Engine) {
	e.on("encoding/json.Marshal", func(fr *Frame, a []Value) Value {
		p := fr.p
		p.eng.noteUse("model: encoding/json = engine JSON codec over ropes (go/types struct tags; symbolic bytes assumed to need no escaping)")
		it := a[0].(Iface)
		var bl builder
		if err := p.jsonEnc(fr, &bl, it.V, it.T, true); err != nil {
			return Tuple{[]Value(nil), p.mkError(CStr("json: " + err.msg))}
		}
		bs := bl.str().toBytes()
		if bs == nil {
			bs = []Value{}
		}
		return Tuple{bs, Iface{}}
	})
	e.on("encoding/json.MarshalIndent", func(fr *Frame, a []Value) Value {
		p := fr.p
		it := a[0].(Iface)
		var bl builder
		if err := p.jsonEnc(fr, &bl, it.V, it.T, true); err != nil {
			return Tuple{[]Value(nil), p.mkError(CStr("json: " + err.msg))}
		}
		s := bl.str()
		if c, ok := s.Concrete(); ok {
			prefix, _ := a[1].(Str).Concrete()
			indent, _ := a[2].(Str).Concrete()
			var out strings.Builder
			var buf = []byte(c)
			var dst = &strings.Builder{}
			_ = dst
			var ib = new(jsonIndentBuf)
			if err := json.Indent(&ib.b, buf, prefix, indent); err == nil {
				out.Write(ib.b.Bytes())
				return Tuple{CStr(out.String()).toBytes(), Iface{}}
			}
		}
		return Tuple{s.toBytes(), Iface{}}
	})
	e.on("encoding/json.Unmarshal", func(fr *Frame, a []Value) Value {
		p := fr.p
		p.eng.noteUse("model: encoding/json = engine JSON codec over ropes (go/types struct tags; symbolic bytes assumed to need no escaping)")
		data := bytesToStr(a[0].([]Value))
		it := a[1].(Iface)
		if err := p.jsonUnmarshal(fr, data, it); err != nil {
			return p.mkError(CStr("json: " + err.msg))
		}
		return Iface{}
	})
	// Decoder.Decode: read the whole stream from the reader, then unmarshal
	e.on("(*encoding/json.Decoder).Decode", func(fr *Frame, a []Value) Value {
		p := fr.p
		dec := (*a[0].(*Value)).(Struct)
		rd := dec[0].(Iface)
		var all []Value
		for i := 0; i < 4096; i++ {
			buf := make([]Value, 256)
			for j := range buf {
				buf[j] = smt.I(0)
			}
			res, ok := p.callMethod(fr, rd, "Read", buf)
			if !ok {
				panic(abort("engine: json.Decoder over a reader without Read"))
			}
			t := res.(Tuple)
			n := p.concInt(t[0].(*smt.T), 0, 256)
			all = append(all, buf[:n]...)
			if ei := t[1].(Iface); ei.T != nil {
				break
			}
		}
		if len(all) == 0 {
			return p.mkError(CStr("EOF"))
		}
		if err := p.jsonUnmarshal(fr, bytesToStr(all), a[1].(Iface)); err != nil {
			return p.mkError(CStr("json: " + err.msg))
		}
		return Iface{}
	})
	e.on("(*encoding/json.Encoder).Encode", func(fr *Frame, a []Value) Value {
		p := fr.p
		enc := (*a[0].(*Value)).(Struct)
		w := enc[0].(Iface)
		it := a[1].(Iface)
		var bl builder
		if err := p.jsonEnc(fr, &bl, it.V, it.T, true); err != nil {
			return p.mkError(CStr("json: " + err.msg))
		}
		bl.addSeg(Seg{S: "\n"})
		res, _ := p.callMethod(fr, w, "Write", bl.str().toBytes())
		if t, ok := res.(Tuple); ok {
			if ei := t[1].(Iface); ei.T != nil {
				return ei
			}
		}
		return Iface{}
	})
	e.on("encoding/json.Valid", func(fr *Frame, a []Value) Value {
		data := bytesToStr(a[0].([]Value))
		ps := &jparser{us: data.units(), p: fr.p}
		_, err := ps.parseTop()
		return smt.B(err == nil)
	})
}

// ---- encoding ----

type jfield struct {
	name      string
	index     []int
	typ       types.Type
	omitEmpty bool
	asString  bool
}

var jfieldCache = map[string][]jfield{}

// jsonFields flattens the fields of a struct type like encoding/json does
// (simplified: no conflict resolution between equally named embedded fields).
func jsonFields(st *types.Struct) []jfield {
	type cand struct {
		f     jfield
		depth int
	}
	var all []cand
	var walk func(st *types.Struct, prefix []int, depth int)
	walk = func(st *types.Struct, prefix []int, depth int) {
		for i := 0; i < st.NumFields(); i++ {
			f := st.Field(i)
			tag := reflect.StructTag(st.Tag(i)).Get("json")
			if tag == "-" {
				continue
			}
			name, opts, _ := strings.Cut(tag, ",")
			idx := append(append([]int(nil), prefix...), i)
			if f.Anonymous() && name == "" {
				ft := f.Type()
				if pt, ok := ft.Underlying().(*types.Pointer); ok {
					ft = pt.Elem()
				}
				if est, ok := ft.Underlying().(*types.Struct); ok {
					walk(est, idx, depth+1)
					continue
				}
			}
			if !f.Exported() {
				continue
			}
			if name == "" {
				name = f.Name()
			}
			all = append(all, cand{jfield{name: name, index: idx, typ: f.Type(), omitEmpty: strings.Contains(","+opts+",", ",omitempty,"), asString: strings.Contains(","+opts+",", ",string,")}, depth})
		}
	}
	walk(st, nil, 0)
	// the shallowest field of a name wins
	best := map[string]int{}
	for _, c := range all {
		if d, ok := best[c.f.name]; !ok || c.depth < d {
			best[c.f.name] = c.depth
		}
	}
	var out []jfield
	seen := map[string]bool{}
	for _, c := range all {
		if c.depth != best[c.f.name] || seen[c.f.name] {
			continue
		}
		seen[c.f.name] = true
		out = append(out, c.f)
	}
	// encoding/json orders fields by index sequence
	sort.SliceStable(out, func(i, j int) bool {
		a, b := out[i].index, out[j].index
		for k := 0; k < len(a) && k < len(b); k++ {
			if a[k] != b[k] {
				return a[k] < b[k]
			}
		}
		return len(a) < len(b)
	})
	return out
}

func fieldByIndex(v Value, t types.Type, index []int) (Value, bool) {
	cur := v
	ct := t
	for _, i := range index {
		if pt, ok := ct.Underlying().(*types.Pointer); ok {
			c := cur.(*Value)
			if c == nil {
				return nil, false
			}
			cur = *c
			ct = pt.Elem()
		}
		s := cur.(Struct)
		cur = s[i]
		ct = ct.Underlying().(*types.Struct).Field(i).Type()
	}
	return cur, true
}

func hasMethod(p *Path, t types.Type, name string, nparams int) bool {
	m := p.methodOf(t, name)
	return m != nil && m.Signature.Params().Len() == nparams
}

// isEmptyJSON decides omitempty; symbolic scalars fork.
func (p *Path) isEmptyJSON(v Value, t types.Type) bool {
	switch x := v.(type) {
	case *smt.T:
		if x.Sort == smt.Bool {
			return !p.Branch(x)
		}
		return p.Branch(smt.Eq(x, smt.I(0)))
	case float64:
		return x == 0
	case Str:
		return p.Branch(smt.Eq(strLen(x), smt.I(0)))
	case *Value:
		return x == nil
	case []Value:
		return len(x) == 0
	case Array:
		return len(x) == 0
	case *Map:
		return x == nil || len(x.Keys) == 0
	case Iface:
		return x.T == nil
	}
	return false
}

func (p *Path) jsonEncString(bl *builder, s Str) {
	s = p.conc(s)
	bl.addSeg(Seg{S: "\""})
	for _, g := range s.Segs {
		switch {
		case g.B != nil:
			// assume the byte needs no escaping
			p.eng.noteUse("assume:symbolic bytes inside JSON strings are printable ASCII other than \" \\ < > &")
			b := g.B
			p.Assume(smt.And(smt.Le(smt.I(0x20), b), smt.Lt(b, smt.I(0x7f)), smt.Ne(b, smt.I('"')), smt.Ne(b, smt.I('\\')), smt.Ne(b, smt.I('<')), smt.Ne(b, smt.I('>')), smt.Ne(b, smt.I('&'))))
			bl.addSeg(g)
		case g.A != nil:
			bl.addSeg(g)
		default:
			q, _ := json.Marshal(g.S)
			bl.addSeg(Seg{S: string(q[1 : len(q)-1])})
		}
	}
	bl.addSeg(Seg{S: "\""})
}

func (p *Path) jsonEnc(fr *Frame, bl *builder, v Value, t types.Type, top bool) *jsonErr {
	if t == nil {
		bl.addSeg(Seg{S: "null"})
		return nil
	}
	// Marshaler / TextMarshaler on the value or (for addressable values) its pointer
	if _, isIface := t.Underlying().(*types.Interface); !isIface {
		if ptr, isPtr := v.(*Value); !(isPtr && ptr == nil) {
			if hasMethod(p, t, "MarshalJSON", 0) {
				res := p.call(fr, 0, p.methodOf(t, "MarshalJSON"), []Value{v}).(Tuple)
				if e := res[1].(Iface); e.T != nil {
					s, _ := p.errorString(fr, e).Concrete()
					return &jsonErr{"error calling MarshalJSON for type " + t.String() + ": " + s}
				}
				raw := bytesToStr(res[0].([]Value))
				bl.addStr(raw)
				return nil
			}
			if hasMethod(p, t, "MarshalText", 0) {
				res := p.call(fr, 0, p.methodOf(t, "MarshalText"), []Value{v}).(Tuple)
				if e := res[1].(Iface); e.T != nil {
					s, _ := p.errorString(fr, e).Concrete()
					return &jsonErr{"error calling MarshalText for type " + t.String() + ": " + s}
				}
				p.jsonEncString(bl, bytesToStr(res[0].([]Value)))
				return nil
			}
		}
	}
	switch u := t.Underlying().(type) {
	case *types.Basic:
		switch x := v.(type) {
		case *smt.T:
			if x.Sort == smt.Bool {
				if b, ok := x.BoolVal(); ok {
					bl.addSeg(Seg{S: strconv.FormatBool(b)})
				} else if p.Branch(x) {
					bl.addSeg(Seg{S: "true"})
				} else {
					bl.addSeg(Seg{S: "false"})
				}
				return nil
			}
			if c, ok := x.Int64(); ok {
				bl.addSeg(Seg{S: strconv.FormatInt(c, 10)})
			} else if x.IsConst() {
				bl.addSeg(Seg{S: x.BigVal().String()})
			} else {
				p.eng.noteUse("model: decimal rendering of a symbolic integer is an opaque token")
				bl.addSeg(Seg{A: &Atom{ID: x, Len: 1, Kind: "dec"}})
			}
			return nil
		case float64:
			b, _ := json.Marshal(x)
			bl.addSeg(Seg{S: string(b)})
			return nil
		case Str:
			p.jsonEncString(bl, x)
			return nil
		}
	case *types.Pointer:
		c := v.(*Value)
		if c == nil {
			bl.addSeg(Seg{S: "null"})
			return nil
		}
		return p.jsonEnc(fr, bl, *c, u.Elem(), false)
	case *types.Interface:
		it := v.(Iface)
		if it.T == nil {
			bl.addSeg(Seg{S: "null"})
			return nil
		}
		return p.jsonEnc(fr, bl, it.V, it.T, false)
	case *types.Struct:
		bl.addSeg(Seg{S: "{"})
		first := true
		for _, f := range jsonFields(u) {
			fv, ok := fieldByIndex(v, t, f.index)
			if !ok {
				continue
			}
			if f.omitEmpty && p.isEmptyJSON(fv, f.typ) {
				continue
			}
			if !first {
				bl.addSeg(Seg{S: ","})
			}
			first = false
			k, _ := json.Marshal(f.name)
			bl.addSeg(Seg{S: string(k) + ":"})
			if err := p.jsonEnc(fr, bl, fv, f.typ, false); err != nil {
				return err
			}
		}
		bl.addSeg(Seg{S: "}"})
		return nil
	case *types.Map:
		m := v.(*Map)
		if m == nil {
			bl.addSeg(Seg{S: "null"})
			return nil
		}
		type kv struct {
			k string
			v Value
		}
		var kvs []kv
		for i, k := range m.Keys {
			var ks string
			switch kk := k.(type) {
			case Str:
				c, ok := p.conc(kk).Concrete()
				if !ok {
					panic(abort("unsupported: JSON object key that is not concrete"))
				}
				ks = c
			case *smt.T:
				c := p.concInt(kk, -1<<40, 1<<40)
				ks = strconv.FormatInt(c, 10)
			default:
				return &jsonErr{"unsupported map key type"}
			}
			kvs = append(kvs, kv{ks, m.Vals[i]})
		}
		sort.Slice(kvs, func(i, j int) bool { return kvs[i].k < kvs[j].k })
		bl.addSeg(Seg{S: "{"})
		for i, e := range kvs {
			if i > 0 {
				bl.addSeg(Seg{S: ","})
			}
			k, _ := json.Marshal(e.k)
			bl.addSeg(Seg{S: string(k) + ":"})
			if err := p.jsonEnc(fr, bl, e.v, u.Elem(), false); err != nil {
				return err
			}
		}
		bl.addSeg(Seg{S: "}"})
		return nil
	case *types.Slice:
		s := v.([]Value)
		if s == nil {
			bl.addSeg(Seg{S: "null"})
			return nil
		}
		if b, ok := u.Elem().Underlying().(*types.Basic); ok && b.Kind() == types.Uint8 {
			p.jsonEncBytes(bl, s)
			return nil
		}
		bl.addSeg(Seg{S: "["})
		for i, e := range s {
			if i > 0 {
				bl.addSeg(Seg{S: ","})
			}
			if err := p.jsonEnc(fr, bl, e, u.Elem(), false); err != nil {
				return err
			}
		}
		bl.addSeg(Seg{S: "]"})
		return nil
	case *types.Array:
		s := v.(Array)
		bl.addSeg(Seg{S: "["})
		for i, e := range s {
			if i > 0 {
				bl.addSeg(Seg{S: ","})
			}
			if err := p.jsonEnc(fr, bl, e, u.Elem(), false); err != nil {
				return err
			}
		}
		bl.addSeg(Seg{S: "]"})
		return nil
	}
	return &jsonErr{"unsupported type: " + t.String()}
}

type jsonIndentBuf struct{ b bytes.Buffer }

func (p *Path) jsonEncBytes(bl *builder, s []Value) {
	conc := make([]byte, 0, len(s))
	for _, e := range s {
		t, ok := e.(*smt.T)
		if !ok {
			conc = nil
			break
		}
		c, ok := t.Int64()
		if !ok {
			conc = nil
			break
		}
		conc = append(conc, byte(c))
	}
	if conc != nil || len(s) == 0 {
		bl.addSeg(Seg{S: "\"" + base64.StdEncoding.EncodeToString(conc) + "\""})
		return
	}
	p.eng.noteUse("model: base64 of symbolic bytes is an opaque token carrying the payload")
	bl.addSeg(Seg{S: "\""})
	bl.addSeg(Seg{A: &Atom{Kind: "b64", Len: (len(s) + 2) / 3 * 4, Payload: append([]Value(nil), s...), ID: smt.I(0)}})
	bl.addSeg(Seg{S: "\""})
}

// ---- parsing ----

type jval struct {
	kind   byte // o a s n t f z
	keys   []string
	vals   []*jval
	str    Str    // decoded string content
	num    string // concrete number literal
	numA   *Atom  // or a decimal atom
	lo, hi int    // extent in units
}

type jparser struct {
	us  []unit
	pos int
	p   *Path
}

func (ps *jparser) peek() (byte, bool) {
	if ps.pos >= len(ps.us) {
		return 0, false
	}
	u := ps.us[ps.pos]
	if u.b == nil {
		return 0, false
	}
	c, ok := u.b.Int64()
	if !ok {
		return 0, false
	}
	return byte(c), true
}

func (ps *jparser) ws() {
	for {
		c, ok := ps.peek()
		if !ok || !(c == ' ' || c == '\t' || c == '\n' || c == '\r') {
			return
		}
		ps.pos++
	}
}

func (ps *jparser) fail(msg string) *jsonErr {
	return &jsonErr{fmt.Sprintf("invalid character at offset %d: %s", ps.pos, msg)}
}

func (ps *jparser) parseTop() (*jval, *jsonErr) {
	ps.ws()
	v, err := ps.parseValue()
	if err != nil {
		return nil, err
	}
	ps.ws()
	if ps.pos != len(ps.us) {
		return nil, ps.fail("data after top-level value")
	}
	return v, nil
}

func (ps *jparser) parseValue() (*jval, *jsonErr) {
	start := ps.pos
	if ps.pos < len(ps.us) && ps.us[ps.pos].a != nil && ps.us[ps.pos].a.Kind == "dec" {
		a := ps.us[ps.pos].a
		ps.pos += a.Len
		return &jval{kind: 'n', numA: a, lo: start, hi: ps.pos}, nil
	}
	c, ok := ps.peek()
	if !ok {
		if ps.pos >= len(ps.us) {
			return nil, &jsonErr{"unexpected end of JSON input"}
		}
		return nil, ps.fail("symbolic byte where a JSON value starts")
	}
	switch {
	case c == '{':
		ps.pos++
		v := &jval{kind: 'o', lo: start}
		ps.ws()
		if c, _ := ps.peek(); c == '}' {
			ps.pos++
			v.hi = ps.pos
			return v, nil
		}
		for {
			ps.ws()
			k, err := ps.parseString()
			if err != nil {
				return nil, err
			}
			ks, ok := k.Concrete()
			if !ok {
				panic(abort("unsupported: JSON object key that is not concrete"))
			}
			ps.ws()
			if c, _ := ps.peek(); c != ':' {
				return nil, ps.fail("expected ':'")
			}
			ps.pos++
			ps.ws()
			val, err := ps.parseValue()
			if err != nil {
				return nil, err
			}
			v.keys = append(v.keys, ks)
			v.vals = append(v.vals, val)
			ps.ws()
			c, _ := ps.peek()
			ps.pos++
			if c == '}' {
				v.hi = ps.pos
				return v, nil
			}
			if c != ',' {
				ps.pos--
				return nil, ps.fail("expected ',' or '}'")
			}
		}
	case c == '[':
		ps.pos++
		v := &jval{kind: 'a', lo: start}
		ps.ws()
		if c, _ := ps.peek(); c == ']' {
			ps.pos++
			v.hi = ps.pos
			return v, nil
		}
		for {
			ps.ws()
			val, err := ps.parseValue()
			if err != nil {
				return nil, err
			}
			v.vals = append(v.vals, val)
			ps.ws()
			c, _ := ps.peek()
			ps.pos++
			if c == ']' {
				v.hi = ps.pos
				return v, nil
			}
			if c != ',' {
				ps.pos--
				return nil, ps.fail("expected ',' or ']'")
			}
		}
	case c == '"':
		s, err := ps.parseString()
		if err != nil {
			return nil, err
		}
		return &jval{kind: 's', str: s, lo: start, hi: ps.pos}, nil
	case c == 't' || c == 'f' || c == 'n':
		for _, w := range []string{"true", "false", "null"} {
			if ps.hasWord(w) {
				ps.pos += len(w)
				k := w[0]
				if k == 'n' {
					k = 'z'
				}
				return &jval{kind: k, lo: start, hi: ps.pos}, nil
			}
		}
		return nil, ps.fail("invalid literal")
	case c == '-' || (c >= '0' && c <= '9'):
		var sb strings.Builder
		for {
			c, ok := ps.peek()
			if !ok || !(c == '-' || c == '+' || c == '.' || c == 'e' || c == 'E' || (c >= '0' && c <= '9')) {
				break
			}
			sb.WriteByte(c)
			ps.pos++
		}
		if !json.Valid([]byte(sb.String())) {
			return nil, ps.fail("invalid number")
		}
		return &jval{kind: 'n', num: sb.String(), lo: start, hi: ps.pos}, nil
	}
	return nil, ps.fail(fmt.Sprintf("unexpected %q", c))
}

func (ps *jparser) hasWord(w string) bool {
	for i := 0; i < len(w); i++ {
		if ps.pos+i >= len(ps.us) {
			return false
		}
		u := ps.us[ps.pos+i]
		if u.b == nil {
			return false
		}
		c, ok := u.b.Int64()
		if !ok || byte(c) != w[i] {
			return false
		}
	}
	return true
}

func (ps *jparser) parseString() (Str, *jsonErr) {
	if c, _ := ps.peek(); c != '"' {
		return Str{}, ps.fail("expected string")
	}
	ps.pos++
	var bl builder
	var lit strings.Builder
	flush := func() *jsonErr {
		if lit.Len() > 0 {
			var s string
			if err := json.Unmarshal([]byte("\""+lit.String()+"\""), &s); err != nil {
				return &jsonErr{err.Error()}
			}
			bl.addSeg(Seg{S: s})
			lit.Reset()
		}
		return nil
	}
	for ps.pos < len(ps.us) {
		u := ps.us[ps.pos]
		if u.a != nil {
			if err := flush(); err != nil {
				return Str{}, err
			}
			bl.addSeg(Seg{A: u.a})
			ps.pos += u.a.Len
			continue
		}
		if u.b == nil {
			ps.pos++
			continue
		}
		c, ok := u.b.Int64()
		if !ok {
			// symbolic byte: ordinary character by the encoder's assumption
			if err := flush(); err != nil {
				return Str{}, err
			}
			ps.p.Assume(smt.And(smt.Ne(u.b, smt.I('"')), smt.Ne(u.b, smt.I('\\')), smt.Le(smt.I(0x20), u.b)))
			bl.addSeg(Seg{B: u.b})
			ps.pos++
			continue
		}
		if c == '"' {
			ps.pos++
			if err := flush(); err != nil {
				return Str{}, err
			}
			return bl.str(), nil
		}
		if c == '\\' {
			lit.WriteByte(byte(c))
			ps.pos++
			if c2, ok := ps.peek(); ok {
				lit.WriteByte(c2)
				ps.pos++
			}
			continue
		}
		lit.WriteByte(byte(c))
		ps.pos++
	}
	return Str{}, &jsonErr{"unexpected end of JSON input"}
}

// ---- decoding into Go values ----

func unitsToStr(us []unit) Str {
	var bl builder
	for i := 0; i < len(us); i++ {
		u := us[i]
		switch {
		case u.a != nil:
			bl.addSeg(Seg{A: u.a})
			i += u.a.Len - 1
		case u.b != nil:
			bl.addByte(u.b)
		}
	}
	return bl.str()
}

func (p *Path) jsonUnmarshal(fr *Frame, data Str, dst Iface) *jsonErr {
	if dst.T == nil {
		return &jsonErr{"Unmarshal(nil)"}
	}
	pt, ok := dst.T.Underlying().(*types.Pointer)
	if !ok || dst.V.(*Value) == nil {
		return &jsonErr{"Unmarshal(non-pointer " + dst.T.String() + ")"}
	}
	ps := &jparser{us: data.units(), p: p}
	v, err := ps.parseTop()
	if err != nil {
		return err
	}
	return p.jsonAssign(fr, ps, v, dst.V.(*Value), pt.Elem())
}

func (p *Path) jsonAssign(fr *Frame, ps *jparser, v *jval, cell *Value, t types.Type) *jsonErr {
	// Unmarshaler on *T
	ptrT := types.NewPointer(t)
	if _, isIface := t.Underlying().(*types.Interface); !isIface {
		if hasMethod(p, ptrT, "UnmarshalJSON", 1) {
			if v.kind == 'z' {
				if _, isPtr := t.Underlying().(*types.Pointer); isPtr {
					*cell = zero(t)
					return nil
				}
			}
			raw := unitsToStr(ps.us[v.lo:v.hi]).toBytes()
			res := p.call(fr, 0, p.methodOf(ptrT, "UnmarshalJSON"), []Value{cell, raw})
			if e := res.(Iface); e.T != nil {
				s, _ := p.errorString(fr, e).Concrete()
				return &jsonErr{s}
			}
			return nil
		}
		if v.kind == 's' && hasMethod(p, ptrT, "UnmarshalText", 1) {
			res := p.call(fr, 0, p.methodOf(ptrT, "UnmarshalText"), []Value{cell, v.str.toBytes()})
			if e := res.(Iface); e.T != nil {
				s, _ := p.errorString(fr, e).Concrete()
				return &jsonErr{s}
			}
			return nil
		}
	}
	if v.kind == 'z' {
		switch t.Underlying().(type) {
		case *types.Pointer, *types.Map, *types.Slice, *types.Interface:
			*cell = zero(t)
		}
		return nil
	}
	switch u := t.Underlying().(type) {
	case *types.Pointer:
		c := (*cell).(*Value)
		if c == nil {
			c = newCell(zero(u.Elem()))
			*cell = c
		}
		return p.jsonAssign(fr, ps, v, c, u.Elem())
	case *types.Interface:
		if u.NumMethods() != 0 {
			return &jsonErr{"cannot unmarshal into Go value of type " + t.String()}
		}
		*cell = p.jsonAny(v)
		return nil
	case *types.Basic:
		switch {
		case u.Info()&types.IsString != 0:
			if v.kind != 's' {
				return &jsonErr{"cannot unmarshal " + kindName(v.kind) + " into Go value of type " + t.String()}
			}
			*cell = v.str
			return nil
		case u.Info()&types.IsBoolean != 0:
			if v.kind != 't' && v.kind != 'f' {
				return &jsonErr{"cannot unmarshal " + kindName(v.kind) + " into Go value of type " + t.String()}
			}
			*cell = smt.B(v.kind == 't')
			return nil
		case u.Info()&types.IsInteger != 0:
			if v.kind != 'n' {
				return &jsonErr{"cannot unmarshal " + kindName(v.kind) + " into Go value of type " + t.String()}
			}
			if v.numA != nil {
				*cell = v.numA.ID
				return nil
			}
			n, err := strconv.ParseInt(v.num, 10, 64)
			if err != nil {
				if un, err2 := strconv.ParseUint(v.num, 10, 64); err2 == nil {
					*cell = smt.U64(un)
					return nil
				}
				return &jsonErr{"cannot unmarshal number " + v.num + " into Go value of type " + t.String()}
			}
			bits, signed := intInfo(u)
			if bits < 64 {
				if signed && (n < -(1<<uint(bits-1)) || n > 1<<uint(bits-1)-1) || !signed && (n < 0 || n > 1<<uint(bits)-1) {
					return &jsonErr{"cannot unmarshal number " + v.num + " into Go value of type " + t.String()}
				}
			} else if !signed && n < 0 {
				return &jsonErr{"cannot unmarshal number " + v.num + " into Go value of type " + t.String()}
			}
			*cell = smt.I(n)
			return nil
		case u.Info()&types.IsFloat != 0:
			if v.kind != 'n' || v.numA != nil {
				return &jsonErr{"cannot unmarshal " + kindName(v.kind) + " into Go value of type " + t.String()}
			}
			f, _ := strconv.ParseFloat(v.num, 64)
			*cell = f
			return nil
		}
	case *types.Struct:
		if v.kind != 'o' {
			return &jsonErr{"cannot unmarshal " + kindName(v.kind) + " into Go value of type " + t.String()}
		}
		fields := jsonFields(u)
		for i, k := range v.keys {
			var f *jfield
			for j := range fields {
				if fields[j].name == k {
					f = &fields[j]
					break
				}
			}
			if f == nil {
				for j := range fields {
					if strings.EqualFold(fields[j].name, k) {
						f = &fields[j]
						break
					}
				}
			}
			if f == nil {
				continue
			}
			fc := p.fieldCell(cell, t, f.index)
			if err := p.jsonAssign(fr, ps, v.vals[i], fc, f.typ); err != nil {
				return err
			}
		}
		return nil
	case *types.Map:
		if v.kind != 'o' {
			return &jsonErr{"cannot unmarshal " + kindName(v.kind) + " into Go value of type " + t.String()}
		}
		m, _ := (*cell).(*Map)
		if m == nil {
			m = &Map{KT: u.Key()}
			*cell = m
		}
		for i, k := range v.keys {
			ec := newCell(zero(u.Elem()))
			if err := p.jsonAssign(fr, ps, v.vals[i], ec, u.Elem()); err != nil {
				return err
			}
			var key Value = CStr(k)
			if b, ok := u.Key().Underlying().(*types.Basic); ok && b.Info()&types.IsInteger != 0 {
				n, _ := strconv.ParseInt(k, 10, 64)
				key = smt.I(n)
			}
			p.mapUpdate(m, key, *ec)
		}
		return nil
	case *types.Slice:
		if b, ok := u.Elem().Underlying().(*types.Basic); ok && b.Kind() == types.Uint8 && v.kind == 's' {
			if len(v.str.Segs) == 1 && v.str.Segs[0].A != nil && v.str.Segs[0].A.Kind == "b64" {
				*cell = append([]Value{}, v.str.Segs[0].A.Payload...)
				return nil
			}
			c, ok := v.str.Concrete()
			if !ok {
				panic(abort("unsupported: base64 decoding of a symbolic string"))
			}
			bs, err := base64.StdEncoding.DecodeString(c)
			if err != nil {
				return &jsonErr{err.Error()}
			}
			out := make([]Value, len(bs))
			for i, b := range bs {
				out[i] = smt.I(int64(b))
			}
			*cell = out
			return nil
		}
		if v.kind != 'a' {
			return &jsonErr{"cannot unmarshal " + kindName(v.kind) + " into Go value of type " + t.String()}
		}
		out := make([]Value, len(v.vals))
		for i, e := range v.vals {
			ec := newCell(zero(u.Elem()))
			if err := p.jsonAssign(fr, ps, e, ec, u.Elem()); err != nil {
				return err
			}
			out[i] = *ec
		}
		*cell = out
		return nil
	case *types.Array:
		if v.kind != 'a' {
			return &jsonErr{"cannot unmarshal " + kindName(v.kind) + " into Go value of type " + t.String()}
		}
		arr := (*cell).(Array)
		for i := range arr {
			if i < len(v.vals) {
				if err := p.jsonAssign(fr, ps, v.vals[i], &arr[i], u.Elem()); err != nil {
					return err
				}
			} else {
				arr[i] = zero(u.Elem())
			}
		}
		return nil
	}
	return &jsonErr{"unsupported destination type " + t.String()}
}

// fieldCell returns the address of a (possibly embedded) field, allocating
// embedded pointers on the way.
func (p *Path) fieldCell(cell *Value, t types.Type, index []int) *Value {
	cur := cell
	ct := t
	for _, i := range index {
		if pt, ok := ct.Underlying().(*types.Pointer); ok {
			c := (*cur).(*Value)
			if c == nil {
				c = newCell(zero(pt.Elem()))
				*cur = c
			}
			cur = c
			ct = pt.Elem()
		}
		s := (*cur).(Struct)
		cur = &s[i]
		ct = ct.Underlying().(*types.Struct).Field(i).Type()
	}
	return cur
}

var anyType = types.NewInterfaceType(nil, nil)

func (p *Path) jsonAny(v *jval) Value {
	switch v.kind {
	case 'z':
		return Iface{}
	case 't', 'f':
		return Iface{T: types.Typ[types.Bool], V: smt.B(v.kind == 't')}
	case 's':
		return Iface{T: types.Typ[types.String], V: v.str}
	case 'n':
		if v.numA != nil {
			panic(abort("unsupported: symbolic number decoded into interface{}"))
		}
		f, _ := strconv.ParseFloat(v.num, 64)
		return Iface{T: types.Typ[types.Float64], V: f}
	case 'a':
		out := make([]Value, len(v.vals))
		for i, e := range v.vals {
			out[i] = p.jsonAny(e)
		}
		return Iface{T: types.NewSlice(anyType), V: out}
	case 'o':
		m := &Map{KT: types.Typ[types.String]}
		for i, k := range v.keys {
			p.mapUpdate(m, CStr(k), p.jsonAny(v.vals[i]))
		}
		return Iface{T: types.NewMap(types.Typ[types.String], anyType), V: m}
	}
	return Iface{}
}

func kindName(k byte) string {
	switch k {
	case 'o':
		return "object"
	case 'a':
		return "array"
	case 's':
		return "string"
	case 'n':
		return "number"
	case 't', 'f':
		return "bool"
	}
	return "null"
}
