package sym

import (
	"fmt"
	"strings"

	"verif/gosym/smt"
)

// Atom is an opaque string token: a string whose bytes are not modelled, only
// its identity (ID term), its length and a few format facts. Atoms are assumed
// to differ from every concrete/exploded string and to never straddle segment
// boundaries (stated in evidence as the "opaque token" assumption).
type Atom struct {
	ID   *smt.T
	Len  int
	Kind string // "digest" | "hex" | "tok"
	Info string // digest: algorithm
	Tag  string // taint / provenance label for C11-style checks
	// Payload carries the bytes behind a "b64" token
	Payload []Value
	// Hash carries the hashed content behind a digest computed over symbolic bytes
	Hash []Value
}

type Seg struct {
	S string // concrete run when B == nil && A == nil
	B *smt.T // one symbolic byte
	A *Atom
}

// Fin is a string drawn from a finite set of concrete choices by a symbolic index.
type Fin struct {
	Choices []string
	Idx     *smt.T
}

// Str is an immutable string value.
type Str struct {
	Segs []Seg
	N    int
	Fin  *Fin
}

func CStr(s string) Str {
	if s == "" {
		return Str{}
	}
	return Str{Segs: []Seg{{S: s}}, N: len(s)}
}

func AtomStr(a *Atom) Str { return Str{Segs: []Seg{{A: a}}, N: a.Len} }

func BytesStr(bs []*smt.T) Str {
	var b builder
	for _, t := range bs {
		b.addByte(t)
	}
	return b.str()
}

type builder struct {
	segs []Seg
	n    int
	cur  strings.Builder
}

func (b *builder) flush() {
	if b.cur.Len() > 0 {
		b.segs = append(b.segs, Seg{S: b.cur.String()})
		b.cur.Reset()
	}
}
func (b *builder) addByte(t *smt.T) {
	if v, ok := t.Int64(); ok {
		b.cur.WriteByte(byte(v))
		b.n++
		return
	}
	b.flush()
	b.segs = append(b.segs, Seg{B: t})
	b.n++
}
func (b *builder) addSeg(s Seg) {
	switch {
	case s.B != nil:
		b.addByte(s.B)
	case s.A != nil:
		b.flush()
		b.segs = append(b.segs, s)
		b.n += s.A.Len
	default:
		b.cur.WriteString(s.S)
		b.n += len(s.S)
	}
}
func (b *builder) addStr(s Str) {
	for _, g := range s.Segs {
		b.addSeg(g)
	}
}
func (b *builder) str() Str {
	b.flush()
	return Str{Segs: b.segs, N: b.n}
}

// Concrete returns the Go string if s has no symbolic part.
func (s Str) Concrete() (string, bool) {
	if s.Fin != nil {
		if len(s.Fin.Choices) == 1 {
			return s.Fin.Choices[0], true
		}
		if v, ok := s.Fin.Idx.Int64(); ok {
			return s.Fin.Choices[v], true
		}
		return "", false
	}
	switch len(s.Segs) {
	case 0:
		return "", true
	case 1:
		if s.Segs[0].B == nil && s.Segs[0].A == nil {
			return s.Segs[0].S, true
		}
	}
	return "", false
}

func (s Str) HasAtom() bool {
	for _, g := range s.Segs {
		if g.A != nil {
			return true
		}
	}
	return false
}

func (s Str) Debug() string {
	if s.Fin != nil {
		return fmt.Sprintf("fin%q[%s]", s.Fin.Choices, s.Fin.Idx)
	}
	var b strings.Builder
	b.WriteString("\"")
	for _, g := range s.Segs {
		switch {
		case g.B != nil:
			b.WriteString("<" + g.B.String() + ">")
		case g.A != nil:
			fmt.Fprintf(&b, "<%s:%s:%s>", g.A.Kind, g.A.Info, g.A.ID)
		default:
			b.WriteString(g.S)
		}
	}
	b.WriteString("\"")
	return b.String()
}

func strConcat(a, b Str) Str {
	if a.Fin != nil || b.Fin != nil {
		return finConcat(a, b)
	}
	if a.N == 0 {
		return b
	}
	if b.N == 0 {
		return a
	}
	var bl builder
	bl.addStr(a)
	bl.addStr(b)
	return bl.str()
}

func finConcat(a, b Str) Str {
	if a.Fin != nil && b.Fin == nil {
		if c, ok := b.Concrete(); ok {
			f := &Fin{Idx: a.Fin.Idx}
			for _, x := range a.Fin.Choices {
				f.Choices = append(f.Choices, x+c)
			}
			return Str{Fin: f}
		}
	}
	if b.Fin != nil && a.Fin == nil {
		if c, ok := a.Concrete(); ok {
			f := &Fin{Idx: b.Fin.Idx}
			for _, x := range b.Fin.Choices {
				f.Choices = append(f.Choices, c+x)
			}
			return Str{Fin: f}
		}
	}
	if a.Fin != nil && b.Fin != nil && a.Fin.Idx == b.Fin.Idx {
		f := &Fin{Idx: a.Fin.Idx}
		for i, x := range a.Fin.Choices {
			f.Choices = append(f.Choices, x+b.Fin.Choices[i])
		}
		return Str{Fin: f}
	}
	panic(needConc{})
}

// needConc is panicked by pure Str helpers when a Fin string must be
// concretised first; callers with access to the path catch it by calling
// (*Path).conc on the operands beforehand.
type needConc struct{}

// At returns the byte at concrete index i.
func (s Str) At(i int) *smt.T {
	if s.Fin != nil {
		panic(needConc{})
	}
	off := 0
	for _, g := range s.Segs {
		switch {
		case g.B != nil:
			if i == off {
				return g.B
			}
			off++
		case g.A != nil:
			if i < off+g.A.Len {
				panic(abort("unsupported: byte access inside opaque token " + g.A.Kind))
			}
			off += g.A.Len
		default:
			if i < off+len(g.S) {
				return smt.I(int64(g.S[i-off]))
			}
			off += len(g.S)
		}
	}
	panic("Str.At out of range")
}

// Slice returns s[lo:hi] for concrete bounds.
func (s Str) Slice(lo, hi int) Str {
	if s.Fin != nil {
		panic(needConc{})
	}
	if lo == 0 && hi == s.N {
		return s
	}
	var bl builder
	off := 0
	for _, g := range s.Segs {
		var l int
		switch {
		case g.B != nil:
			l = 1
		case g.A != nil:
			l = g.A.Len
		default:
			l = len(g.S)
		}
		a, b := max(lo, off), min(hi, off+l)
		if a < b {
			switch {
			case g.B != nil:
				bl.addSeg(g)
			case g.A != nil:
				if a != off || b != off+l {
					if g.A.Kind == "digest" {
						// split "alg:hex" on request: prefix alg, ':' and hex part
						al := len(g.A.Info)
						if a == off && b == off+al {
							bl.addSeg(Seg{S: g.A.Info})
							break
						}
						if a == off+al+1 && b == off+l {
							bl.addSeg(Seg{A: &Atom{ID: g.A.ID, Len: l - al - 1, Kind: "hex", Info: g.A.Info, Tag: g.A.Tag, Hash: g.A.Hash}})
							break
						}
						if a == off && b == off+al+1 {
							bl.addSeg(Seg{S: g.A.Info + ":"})
							break
						}
					}
					if g.A.Kind == "hex" || g.A.Kind == "tok" {
						// a piece of a token is itself a token, a function of the parent's identity
						bl.addSeg(Seg{A: &Atom{ID: smt.App(fmt.Sprintf("sub_%s_%d_%d", g.A.Kind, a-off, b-off), smt.Int, g.A.ID), Len: b - a, Kind: g.A.Kind, Info: g.A.Info, Tag: g.A.Tag}})
						break
					}
					panic(abort("unsupported: slicing inside opaque token " + g.A.Kind))
				}
				bl.addSeg(g)
			default:
				bl.addSeg(Seg{S: g.S[a-off : b-off]})
			}
		}
		off += l
		if off >= hi {
			break
		}
	}
	return bl.str()
}

// unit is one comparable position of a rope: a byte or a whole atom.
type unit struct {
	b *smt.T
	a *Atom
}

func (s Str) units() []unit {
	var us []unit
	for _, g := range s.Segs {
		switch {
		case g.B != nil:
			us = append(us, unit{b: g.B})
		case g.A != nil:
			us = append(us, unit{a: g.A})
			// pad so that positions line up by byte offset
			for i := 1; i < g.A.Len; i++ {
				us = append(us, unit{})
			}
		default:
			for i := 0; i < len(g.S); i++ {
				us = append(us, unit{b: smt.I(int64(g.S[i]))})
			}
		}
	}
	return us
}

func atomEq(a, b *Atom) *smt.T {
	if a == b {
		return smt.True
	}
	if a.Kind != b.Kind || a.Len != b.Len || a.Info != b.Info {
		return smt.False
	}
	if a.Kind == "b64" {
		return payloadEq(a.Payload, b.Payload)
	}
	return smt.Eq(a.ID, b.ID)
}

func strEq(a, b Str) *smt.T {
	if a.Fin != nil || b.Fin != nil {
		return finEq(a, b)
	}
	if a.N != b.N {
		return smt.False
	}
	ca, oka := a.Concrete()
	cb, okb := b.Concrete()
	if oka && okb {
		return smt.B(ca == cb)
	}
	// digest atoms compared with an "alg:" + hex-atom rope
	a, b = canonDigest(a), canonDigest(b)
	ua, ub := a.units(), b.units()
	var cs []*smt.T
	for i := 0; i < len(ua); i++ {
		x, y := ua[i], ub[i]
		switch {
		case x.a != nil && y.a != nil:
			cs = append(cs, atomEq(x.a, y.a))
		case x.a != nil || y.a != nil:
			// a hash of symbolic content against a concrete digest: equal iff the
			// content is the (known) preimage of that digest
			at, other := x.a, ub
			if at == nil {
				at, other = y.a, ua
			}
			if at.Kind == "hex" && at.Hash != nil && i+at.Len <= len(other) {
				hexs := make([]byte, 0, at.Len)
				for j := i; j < i+at.Len; j++ {
					if other[j].b == nil {
						return smt.False
					}
					c, ok := other[j].b.Int64()
					if !ok {
						return smt.False
					}
					hexs = append(hexs, byte(c))
				}
				pre, ok := knownPreimage(at.Info, string(hexs))
				if !ok {
					return smt.False // a digest nobody computed in this run: assumed not to be hit
				}
				pv := make([]Value, len(pre))
				for j, c := range pre {
					pv[j] = smt.I(int64(c))
				}
				cs = append(cs, payloadEq(at.Hash, pv))
				i += at.Len - 1
				continue
			}
			return smt.False // opaque token vs bytes: assumed different
		case x.b == nil && y.b == nil:
			// padding inside aligned atoms
		case x.b == nil || y.b == nil:
			return smt.False
		default:
			c := smt.Eq(x.b, y.b)
			if c == smt.False {
				return smt.False
			}
			cs = append(cs, c)
		}
	}
	return smt.And(cs...)
}

// canonDigest rewrites whole digest atoms into alg + ":" + hex atom so that
// "sha256:"+hex and the digest string compare structurally.
func canonDigest(s Str) Str {
	has := false
	for _, g := range s.Segs {
		if g.A != nil && g.A.Kind == "digest" {
			has = true
		}
	}
	if !has {
		return s
	}
	var bl builder
	for _, g := range s.Segs {
		if g.A != nil && g.A.Kind == "digest" {
			bl.addSeg(Seg{S: g.A.Info + ":"})
			bl.addSeg(Seg{A: &Atom{ID: g.A.ID, Len: g.A.Len - len(g.A.Info) - 1, Kind: "hex", Info: g.A.Info, Tag: g.A.Tag, Hash: g.A.Hash}})
		} else {
			bl.addSeg(g)
		}
	}
	return bl.str()
}

func finEq(a, b Str) *smt.T {
	if a.Fin != nil && b.Fin != nil {
		if a.Fin.Idx == b.Fin.Idx {
			var cs []*smt.T
			for i := range a.Fin.Choices {
				if a.Fin.Choices[i] == b.Fin.Choices[i] {
					cs = append(cs, smt.Eq(a.Fin.Idx, smt.I(int64(i))))
				}
			}
			return smt.Or(cs...)
		}
		var cs []*smt.T
		for i, x := range a.Fin.Choices {
			for j, y := range b.Fin.Choices {
				if x == y {
					cs = append(cs, smt.And(smt.Eq(a.Fin.Idx, smt.I(int64(i))), smt.Eq(b.Fin.Idx, smt.I(int64(j)))))
				}
			}
		}
		return smt.Or(cs...)
	}
	if b.Fin != nil {
		a, b = b, a
	}
	// a is Fin, b is a rope
	var cs []*smt.T
	for i, x := range a.Fin.Choices {
		e := strEq(CStr(x), b)
		if e != smt.False {
			cs = append(cs, smt.And(smt.Eq(a.Fin.Idx, smt.I(int64(i))), e))
		}
	}
	return smt.Or(cs...)
}

// strLen returns len(s) as a term.
func strLen(s Str) *smt.T {
	if s.Fin != nil {
		t := smt.I(int64(len(s.Fin.Choices[len(s.Fin.Choices)-1])))
		for i := len(s.Fin.Choices) - 2; i >= 0; i-- {
			t = smt.Ite(smt.Eq(s.Fin.Idx, smt.I(int64(i))), smt.I(int64(len(s.Fin.Choices[i]))), t)
		}
		return t
	}
	return smt.I(int64(s.N))
}

// strLess returns a < b lexicographically (bytes only).
func strLess(a, b Str) *smt.T {
	if a.Fin != nil || b.Fin != nil {
		panic(needConc{})
	}
	if ca, ok := a.Concrete(); ok {
		if cb, ok := b.Concrete(); ok {
			return smt.B(ca < cb)
		}
	}
	if a.HasAtom() || b.HasAtom() {
		panic(abort("unsupported: ordering of opaque tokens"))
	}
	n := min(a.N, b.N)
	res := smt.B(a.N < b.N)
	for i := n - 1; i >= 0; i-- {
		x, y := a.At(i), b.At(i)
		res = smt.Ite(smt.Lt(x, y), smt.True, smt.Ite(smt.Lt(y, x), smt.False, res))
	}
	return res
}

// toBytes explodes s into byte terms.
func (s Str) toBytes() []Value {
	if s.Fin != nil {
		panic(needConc{})
	}
	out := make([]Value, 0, s.N)
	for _, g := range s.Segs {
		switch {
		case g.B != nil:
			out = append(out, g.B)
		case g.A != nil:
			// an atom inside a byte slice: keep it as a marker element followed by padding
			out = append(out, &AtomByte{A: g.A, Off: 0})
			for i := 1; i < g.A.Len; i++ {
				out = append(out, &AtomByte{A: g.A, Off: i})
			}
		default:
			for i := 0; i < len(g.S); i++ {
				out = append(out, smt.I(int64(g.S[i])))
			}
		}
	}
	return out
}

// AtomByte is the i-th (unmodelled) byte of an atom inside a []byte.
type AtomByte struct {
	A   *Atom
	Off int
}

func bytesToStr(bs []Value) Str {
	var bl builder
	for i := 0; i < len(bs); i++ {
		switch b := bs[i].(type) {
		case *smt.T:
			bl.addByte(b)
		case *AtomByte:
			if b.Off == 0 && i+b.A.Len <= len(bs) {
				ok := true
				for j := 1; j < b.A.Len; j++ {
					ab, is := bs[i+j].(*AtomByte)
					if !is || ab.A != b.A || ab.Off != j {
						ok = false
						break
					}
				}
				if ok {
					bl.addSeg(Seg{A: b.A})
					i += b.A.Len - 1
					continue
				}
			}
			panic(abort("unsupported: torn opaque token in byte slice"))
		default:
			panic(fmt.Sprintf("bytesToStr: %T", b))
		}
	}
	return bl.str()
}
