package sym

import (
	"verif/gosym/smt"
)

func (p *Path) nfaMatch(re *reModel, s Str) *smt.T {
	panic(abort("unsupported: regexp match on symbolic string (nfa model not built yet): " + re.pat))
}

func (p *Path) nfaSubmatch(re *reModel, s Str) Value {
	panic(abort("unsupported: regexp submatch on symbolic string: " + re.pat))
}

func (p *Path) nfaReplaceAll(re *reModel, s, repl Str) Value {
	panic(abort("unsupported: regexp replace on symbolic string: " + re.pat))
}
