package sym

import (
	"fmt"
	"os"
	"regexp/syntax"
	"sync"

	"verif/gosym/smt"
)

// Regexp model for symbolic (exploded, ASCII) strings. The pattern is parsed
// and compiled by regexp/syntax - the same front end the real regexp package
// uses - and the resulting program is simulated over the symbolic bytes:
//
//   - MatchString: Thompson simulation, one Bool term per (position, pc).
//   - FindStringSubmatch (patterns anchored at both ends): the Pike VM's
//     thread list is simulated with its priority order; every thread carries
//     concrete capture positions (input positions are concrete because string
//     lengths are) and a symbolic liveness condition. The candidates that
//     reach the final match are tried in priority order, forking on their
//     conditions, which is exactly leftmost-first semantics.
//
// Character tests are derived from inst.MatchRune on the 128 ASCII values, so
// case folding and classes are those of the real implementation.

var nfaDebug = os.Getenv("GOSYM_NFADEBUG") != ""

type progInfo struct {
	prog   *syntax.Prog
	sets   map[int][]([2]int) // pc -> ASCII ranges accepted
	anchS  bool
	anchE  bool
	numCap int
}

func (re *reModel) info() *progInfo {
	if re.pi != nil {
		return re.pi
	}
	rx, err := syntax.Parse(re.pat, syntax.Perl)
	if err != nil {
		panic(abort("regexp model: " + err.Error()))
	}
	ncap := rx.MaxCap()
	prog, err := syntax.Compile(rx.Simplify())
	if err != nil {
		panic(abort("regexp model: " + err.Error()))
	}
	pi := &progInfo{prog: prog, sets: map[int][]([2]int){}, numCap: ncap}
	for pc := range prog.Inst {
		in := &prog.Inst[pc]
		switch in.Op {
		case syntax.InstRune, syntax.InstRune1, syntax.InstRuneAny, syntax.InstRuneAnyNotNL:
			var rs [][2]int
			start := -1
			for c := 0; c <= 128; c++ {
				ok := c < 128 && in.MatchRune(rune(c))
				if ok && start < 0 {
					start = c
				}
				if !ok && start >= 0 {
					rs = append(rs, [2]int{start, c - 1})
					start = -1
				}
			}
			pi.sets[pc] = rs
		}
	}
	pi.anchS = prog.StartCond()&syntax.EmptyBeginText != 0
	// anchored at the end: every path to Match passes an EndText assertion
	pi.anchE = endAnchored(prog)
	re.pi = pi
	return pi
}

func endAnchored(prog *syntax.Prog) bool {
	// conservative: true iff every InstMatch is only reachable through an
	// EmptyWidth(EndText) instruction that directly precedes it
	for pc := range prog.Inst {
		in := &prog.Inst[pc]
		outs := []uint32{}
		switch in.Op {
		case syntax.InstAlt, syntax.InstAltMatch:
			outs = append(outs, in.Out, in.Arg)
		case syntax.InstMatch, syntax.InstFail:
		default:
			outs = append(outs, in.Out)
		}
		for _, o := range outs {
			if prog.Inst[o].Op == syntax.InstMatch {
				if !(in.Op == syntax.InstEmptyWidth && syntax.EmptyOp(in.Arg)&syntax.EmptyEndText != 0) {
					return false
				}
			}
		}
	}
	return true
}

// byteDom records, for symbolic bytes created with a character class
// (zzStringOf), the set of values the byte can take; the regexp model uses it
// to decide class tests without the solver.
var byteDomMu sync.Mutex
var byteDom = map[*smt.T]*[128]bool{}

func setByteDom(t *smt.T, d *[128]bool) {
	byteDomMu.Lock()
	byteDom[t] = d
	byteDomMu.Unlock()
}

func getByteDom(t *smt.T) *[128]bool {
	byteDomMu.Lock()
	d := byteDom[t]
	byteDomMu.Unlock()
	return d
}

func byteIn(b *smt.T, rs [][2]int) *smt.T {
	if d := getByteDom(b); d != nil {
		any, all := false, true
		var in [128]bool
		for _, r := range rs {
			for c := r[0]; c <= r[1] && c < 128; c++ {
				in[c] = true
			}
		}
		for c := 0; c < 128; c++ {
			if d[c] {
				if in[c] {
					any = true
				} else {
					all = false
				}
			}
		}
		if !any {
			return smt.False
		}
		if all {
			return smt.True
		}
	}
	var cs []*smt.T
	for _, r := range rs {
		if r[0] == r[1] {
			cs = append(cs, smt.Eq(b, smt.I(int64(r[0]))))
		} else {
			cs = append(cs, smt.And(smt.Le(smt.I(int64(r[0])), b), smt.Le(b, smt.I(int64(r[1])))))
		}
	}
	return smt.Or(cs...)
}

func (p *Path) strBytes(s Str) []*smt.T {
	if s.HasAtom() {
		panic(abort("unsupported: regexp on a string mixing symbolic bytes and opaque tokens"))
	}
	out := make([]*smt.T, 0, s.N)
	for _, v := range s.toBytes() {
		b := v.(*smt.T)
		if c, ok := b.Int64(); ok && c >= 0x80 {
			panic(abort("unsupported: non-ASCII constant in a symbolic regexp subject"))
		}
		p.assumeASCII(b)
		out = append(out, b)
	}
	return out
}

// emptyOK evaluates an empty-width assertion at a concrete position.
func emptyOK(op syntax.EmptyOp, pos, n int) (bool, bool) {
	if op&(syntax.EmptyWordBoundary|syntax.EmptyNoWordBoundary) != 0 {
		return false, false
	}
	if op&(syntax.EmptyBeginText|syntax.EmptyBeginLine) != 0 && pos != 0 {
		// (?m) is not used by the patterns in scope; a line start elsewhere would need the previous byte
		if op&syntax.EmptyBeginLine != 0 && op&syntax.EmptyBeginText == 0 {
			return false, false
		}
		return false, true
	}
	if op&(syntax.EmptyEndText|syntax.EmptyEndLine) != 0 && pos != n {
		if op&syntax.EmptyEndLine != 0 && op&syntax.EmptyEndText == 0 {
			return false, false
		}
		return false, true
	}
	return true, true
}

// nfaMatch: Thompson simulation (no captures).
func (p *Path) nfaMatch(re *reModel, s Str) *smt.T {
	pi := re.info()
	bs := p.strBytes(s)
	n := len(bs)
	p.eng.noteUse("model: regexp = regexp/syntax program simulated over symbolic ASCII bytes (Thompson / Pike with symbolic thread liveness)")
	prog := pi.prog
	cur := map[int]*smt.T{}
	var order []int
	matched := smt.False
	var add func(set map[int]*smt.T, ord *[]int, pc int, cond *smt.T, pos int, seen map[int]bool)
	add = func(set map[int]*smt.T, ord *[]int, pc int, cond *smt.T, pos int, seen map[int]bool) {
		if seen[pc] {
			return
		}
		seen[pc] = true
		in := &prog.Inst[pc]
		switch in.Op {
		case syntax.InstFail:
		case syntax.InstAlt, syntax.InstAltMatch:
			add(set, ord, int(in.Out), cond, pos, seen)
			add(set, ord, int(in.Arg), cond, pos, seen)
		case syntax.InstCapture, syntax.InstNop:
			add(set, ord, int(in.Out), cond, pos, seen)
		case syntax.InstEmptyWidth:
			ok, known := emptyOK(syntax.EmptyOp(in.Arg), pos, n)
			if !known {
				panic(abort("unsupported: word-boundary or multi-line assertion in regexp model: " + re.pat))
			}
			if ok {
				add(set, ord, int(in.Out), cond, pos, seen)
			}
		case syntax.InstMatch:
			if !pi.anchE || pos == n {
				matched = smt.Or(matched, cond)
			}
		default:
			if old, ok := set[pc]; ok {
				set[pc] = smt.Or(old, cond)
			} else {
				set[pc] = cond
				*ord = append(*ord, pc)
			}
		}
	}
	add(cur, &order, prog.Start, smt.True, 0, map[int]bool{})
	for i := 0; i < n; i++ {
		next := map[int]*smt.T{}
		var nord []int
		for _, pc := range order {
			c := smt.And(cur[pc], byteIn(bs[i], pi.sets[pc]))
			if c == smt.False {
				continue
			}
			// each source thread gets its own closure walk; conditions are or-ed per pc
			add(next, &nord, int(prog.Inst[pc].Out), c, i+1, map[int]bool{})
		}
		if !pi.anchS {
			add(next, &nord, prog.Start, smt.True, i+1, map[int]bool{})
		}
		cur, order = next, nord
	}
	return matched
}

type thr struct {
	pc   int
	caps []int
	cond *smt.T
}

func capsKey(pc int, caps []int) string { return fmt.Sprint(pc, caps) }

// nfaSubmatch: priority-ordered simulation for patterns anchored at both ends.
func (p *Path) nfaSubmatch(re *reModel, s Str) Value {
	pi := re.info()
	if !pi.anchS || !pi.anchE {
		panic(abort("unsupported: FindStringSubmatch on a symbolic string with an unanchored pattern: " + re.pat))
	}
	bs := p.strBytes(s)
	n := len(bs)
	p.eng.noteUse("model: regexp = regexp/syntax program simulated over symbolic ASCII bytes (Thompson / Pike with symbolic thread liveness)")
	prog := pi.prog
	ncap := 2 * (pi.numCap + 1)
	var finals []thr
	// addthread in priority order (depth-first like the Pike VM)
	var add func(list *[]thr, idx map[string]int, pc int, caps []int, cond *smt.T, pos int, seen map[int]bool)
	add = func(list *[]thr, idx map[string]int, pc int, caps []int, cond *smt.T, pos int, seen map[int]bool) {
		if seen[pc] {
			return
		}
		seen[pc] = true
		in := &prog.Inst[pc]
		switch in.Op {
		case syntax.InstFail:
		case syntax.InstAlt, syntax.InstAltMatch:
			add(list, idx, int(in.Out), caps, cond, pos, seen)
			add(list, idx, int(in.Arg), caps, cond, pos, seen)
		case syntax.InstNop:
			add(list, idx, int(in.Out), caps, cond, pos, seen)
		case syntax.InstCapture:
			if int(in.Arg) < ncap {
				nc := append([]int(nil), caps...)
				nc[in.Arg] = pos
				add(list, idx, int(in.Out), nc, cond, pos, seen)
			} else {
				add(list, idx, int(in.Out), caps, cond, pos, seen)
			}
		case syntax.InstEmptyWidth:
			ok, known := emptyOK(syntax.EmptyOp(in.Arg), pos, n)
			if !known {
				panic(abort("unsupported: word-boundary or multi-line assertion in regexp model: " + re.pat))
			}
			if ok {
				add(list, idx, int(in.Out), caps, cond, pos, seen)
			}
		case syntax.InstMatch:
			if pos == n {
				k := capsKey(-1, caps)
				if j, ok := idx[k]; ok {
					(*list)[j].cond = smt.Or((*list)[j].cond, cond)
				} else {
					idx[k] = len(*list)
					*list = append(*list, thr{pc: pc, caps: caps, cond: cond})
				}
			}
		default:
			k := capsKey(pc, caps)
			if j, ok := idx[k]; ok {
				(*list)[j].cond = smt.Or((*list)[j].cond, cond)
			} else {
				idx[k] = len(*list)
				*list = append(*list, thr{pc: pc, caps: caps, cond: cond})
			}
		}
	}
	init := make([]int, ncap)
	for i := range init {
		init[i] = -1
	}
	var cur []thr
	add(&cur, map[string]int{}, prog.Start, init, smt.True, 0, map[int]bool{})
	for i := 0; i < n; i++ {
		var next []thr
		idx := map[string]int{}
		for _, t := range cur {
			if prog.Inst[t.pc].Op == syntax.InstMatch {
				continue
			}
			c := smt.And(t.cond, byteIn(bs[i], pi.sets[t.pc]))
			if c == smt.False {
				continue
			}
			add(&next, idx, int(prog.Inst[t.pc].Out), t.caps, c, i+1, map[int]bool{})
		}
		cur = next
		if nfaDebug {
			fmt.Fprintf(os.Stderr, "nfa step %d/%d threads=%d\n", i, n, len(cur))
		}
		if len(cur) > 20000 {
			panic(abort("regexp model: more than 20000 threads"))
		}
	}
	for _, t := range cur {
		if prog.Inst[t.pc].Op == syntax.InstMatch {
			finals = append(finals, t)
		}
	}
	if n == 0 {
		// the initial closure may already contain a match
		for _, t := range cur {
			if prog.Inst[t.pc].Op == syntax.InstMatch {
				_ = t
			}
		}
	}
	for _, t := range finals {
		if p.Branch(t.cond) {
			out := make([]Value, ncap/2)
			for g := range out {
				lo, hi := t.caps[2*g], t.caps[2*g+1]
				if g == 0 {
					lo, hi = 0, n
				}
				if lo < 0 || hi < 0 {
					out[g] = Str{}
				} else {
					out[g] = s.Slice(lo, hi)
				}
			}
			return out
		}
	}
	return []Value(nil)
}

// nfaReplaceAll supports patterns that match exactly one character (a class):
// every byte is replaced independently.
func (p *Path) nfaReplaceAll(re *reModel, s, repl Str) Value {
	rx, err := syntax.Parse(re.pat, syntax.Perl)
	if err != nil {
		panic(abort("regexp model: " + err.Error()))
	}
	rx = rx.Simplify()
	if rx.Op != syntax.OpCharClass && rx.Op != syntax.OpLiteral && rx.Op != syntax.OpAnyChar && rx.Op != syntax.OpAnyCharNotNL {
		panic(abort("unsupported: ReplaceAllString with a multi-character pattern on a symbolic string: " + re.pat))
	}
	if rx.Op == syntax.OpLiteral && len(rx.Rune) != 1 {
		panic(abort("unsupported: ReplaceAllString with a multi-character pattern on a symbolic string: " + re.pat))
	}
	rc, ok := repl.Concrete()
	if !ok || len(rc) != 1 {
		panic(abort("unsupported: ReplaceAllString replacement must be one concrete character in the model"))
	}
	pi := re.info()
	// the single rune instruction of the program
	var rs [][2]int
	for _, r := range pi.sets {
		rs = r
	}
	var bl builder
	for _, g := range s.Segs {
		switch {
		case g.A != nil:
			// tokens are alphanumeric: representative decides
			rep, _ := atomRepresentative(Str{Segs: []Seg{g}, N: g.A.Len})
			if re.re.MatchString(rep[:1]) {
				panic(abort("unsupported: ReplaceAllString would rewrite an opaque token"))
			}
			bl.addSeg(g)
		case g.B != nil:
			p.assumeASCII(g.B)
			bl.addByte(smt.Ite(byteIn(g.B, rs), smt.I(int64(rc[0])), g.B))
		default:
			bl.addSeg(Seg{S: re.re.ReplaceAllString(g.S, rc)})
		}
	}
	return bl.str()
}
