// Package sym is a symbolic interpreter for go/ssa: concrete heap structure,
// symbolic scalars (smt terms), forking by re-execution along a decision log.
package sym

import (
	"fmt"
	"go/types"
	"strings"

	"golang.org/x/tools/go/ssa"
	"verif/gosym/smt"
)

// Value is one of:
//
//	*smt.T            bool and all integer kinds
//	float64           concrete floats only
//	Str               strings (rope of concrete runs, symbolic bytes, atoms)
//	*Value            pointers (nil pointer = (*Value)(nil))
//	[]Value           slices (nil slice = []Value(nil))
//	Array, Struct     aggregates (value semantics: copied on load/store)
//	Iface             interfaces (zero Iface = nil interface)
//	*Map, *Chan       reference types
//	*ssa.Function, *Closure, *ssa.Builtin, *Native   functions
//	Tuple             multiple results
//	Opaque            engine-owned model objects stored in a cell
type Value interface{}

type Tuple []Value
type Array []Value
type Struct []Value

type Iface struct {
	T types.Type
	V Value
}

type Closure struct {
	Fn  *ssa.Function
	Env []Value
}

// Native is a function value implemented by the engine.
type Native struct {
	Name string
	Fn   func(fr *Frame, args []Value) Value
}

// Opaque wraps engine-owned model state (regexp models, ...).
type Opaque struct {
	Kind string
	X    interface{}
}

type Map struct {
	KT   types.Type
	Keys []Value
	Vals []Value
}

type Chan struct {
	Cap    int
	Buf    []Value
	Closed bool
	ID     int
	// waiting senders for unbuffered channels are handled by the scheduler
}

func zero(t types.Type) Value {
	switch t := t.(type) {
	case *types.Basic:
		if t.Kind() == types.UntypedNil {
			panic("untyped nil has no zero value")
		}
		if t.Info()&types.IsUntyped != 0 {
			t = types.Default(t).(*types.Basic)
		}
		switch {
		case t.Info()&types.IsBoolean != 0:
			return smt.False
		case t.Info()&types.IsInteger != 0:
			return smt.I(0)
		case t.Info()&types.IsFloat != 0:
			return float64(0)
		case t.Info()&types.IsString != 0:
			return Str{}
		case t.Kind() == types.UnsafePointer:
			return (*Value)(nil)
		case t.Info()&types.IsComplex != 0:
			return complex128(0)
		}
	case *types.Pointer:
		return (*Value)(nil)
	case *types.Array:
		a := make(Array, t.Len())
		for i := range a {
			a[i] = zero(t.Elem())
		}
		return a
	case *types.Named:
		return zero(t.Underlying())
	case *types.Alias:
		return zero(types.Unalias(t))
	case *types.Interface:
		return Iface{}
	case *types.Slice:
		return []Value(nil)
	case *types.Struct:
		s := make(Struct, t.NumFields())
		for i := range s {
			s[i] = zero(t.Field(i).Type())
		}
		return s
	case *types.Tuple:
		if t.Len() == 1 {
			return zero(t.At(0).Type())
		}
		s := make(Tuple, t.Len())
		for i := range s {
			s[i] = zero(t.At(i).Type())
		}
		return s
	case *types.Chan:
		return (*Chan)(nil)
	case *types.Map:
		return (*Map)(nil)
	case *types.Signature:
		return (*ssa.Function)(nil)
	case *types.TypeParam:
		panic(abort("unsupported: zero of type parameter " + t.String()))
	}
	panic(fmt.Sprint("zero: unexpected ", t))
}

// copyVal makes an unaliased copy of aggregates.
func copyVal(v Value) Value {
	switch v := v.(type) {
	case Array:
		a := make(Array, len(v))
		for i := range v {
			a[i] = copyVal(v[i])
		}
		return a
	case Struct:
		s := make(Struct, len(v))
		for i := range v {
			s[i] = copyVal(v[i])
		}
		return s
	}
	return v
}

func load(addr *Value) Value { return copyVal(*addr) }

// store writes v into *addr, preserving the identity of aggregate cells so
// that pointers to fields/elements stay valid.
func store(addr *Value, v Value) {
	switch v := v.(type) {
	case Struct:
		if lhs, ok := (*addr).(Struct); ok && len(lhs) == len(v) {
			for i := range lhs {
				store(&lhs[i], v[i])
			}
			return
		}
		*addr = copyVal(v)
	case Array:
		if lhs, ok := (*addr).(Array); ok && len(lhs) == len(v) {
			for i := range lhs {
				store(&lhs[i], v[i])
			}
			return
		}
		*addr = copyVal(v)
	default:
		*addr = v
	}
}

// equals returns a Bool term for x == y at static type t.
func equals(t types.Type, x, y Value) *smt.T {
	switch x := x.(type) {
	case *smt.T:
		return smt.Eq(x, y.(*smt.T))
	case float64:
		return smt.B(x == y.(float64))
	case Str:
		return strEq(x, y.(Str))
	case *Value:
		return smt.B(x == y.(*Value))
	case *Map:
		return smt.B(x == y.(*Map))
	case *Chan:
		return smt.B(x == y.(*Chan))
	case Iface:
		yi := y.(Iface)
		if x.T == nil || yi.T == nil {
			return smt.B(x.T == nil && yi.T == nil)
		}
		if !types.Identical(x.T, yi.T) {
			return smt.False
		}
		return equals(x.T, x.V, yi.V)
	case Struct:
		ys := y.(Struct)
		st, _ := t.Underlying().(*types.Struct)
		var cs []*smt.T
		for i := range x {
			var ft types.Type
			if st != nil {
				if st.Field(i).Name() == "_" {
					continue
				}
				ft = st.Field(i).Type()
			}
			cs = append(cs, equals(ft, x[i], ys[i]))
		}
		return smt.And(cs...)
	case Array:
		ya := y.(Array)
		var et types.Type
		if at, ok := t.Underlying().(*types.Array); ok {
			et = at.Elem()
		}
		var cs []*smt.T
		for i := range x {
			cs = append(cs, equals(et, x[i], ya[i]))
		}
		return smt.And(cs...)
	case []Value:
		// only comparison with nil is legal; handled by caller
		panic("slice comparison")
	case *ssa.Function, *Closure, *ssa.Builtin, *Native:
		panic("func comparison")
	case *Opaque:
		return smt.B(x == y.(*Opaque))
	case complex128:
		return smt.B(x == y.(complex128))
	}
	panic(fmt.Sprintf("equals: unexpected %T", x))
}

// ---- debugging ----

func valString(v Value) string {
	var b strings.Builder
	writeVal(&b, v, 0)
	return b.String()
}

func writeVal(b *strings.Builder, v Value, depth int) {
	if depth > 4 {
		b.WriteString("...")
		return
	}
	switch v := v.(type) {
	case nil:
		b.WriteString("<nil>")
	case *smt.T:
		s := v.String()
		if len(s) > 200 {
			s = s[:200] + "..."
		}
		b.WriteString(s)
	case Str:
		b.WriteString(v.Debug())
	case *Value:
		if v == nil {
			b.WriteString("nilptr")
		} else {
			b.WriteString("&")
			writeVal(b, *v, depth+1)
		}
	case []Value:
		b.WriteString("[")
		for i, e := range v {
			if i > 0 {
				b.WriteString(" ")
			}
			if i > 16 {
				b.WriteString("...")
				break
			}
			writeVal(b, e, depth+1)
		}
		b.WriteString("]")
	case Array:
		writeVal(b, []Value(v), depth)
	case Struct:
		b.WriteString("{")
		for i, e := range v {
			if i > 0 {
				b.WriteString(" ")
			}
			writeVal(b, e, depth+1)
		}
		b.WriteString("}")
	case Tuple:
		b.WriteString("(")
		for i, e := range v {
			if i > 0 {
				b.WriteString(", ")
			}
			writeVal(b, e, depth+1)
		}
		b.WriteString(")")
	case Iface:
		if v.T == nil {
			b.WriteString("nil-iface")
		} else {
			fmt.Fprintf(b, "iface(%s:", v.T)
			writeVal(b, v.V, depth+1)
			b.WriteString(")")
		}
	case *Map:
		if v == nil {
			b.WriteString("nilmap")
		} else {
			b.WriteString("map[")
			for i := range v.Keys {
				if i > 0 {
					b.WriteString(" ")
				}
				writeVal(b, v.Keys[i], depth+1)
				b.WriteString(":")
				writeVal(b, v.Vals[i], depth+1)
			}
			b.WriteString("]")
		}
	case *ssa.Function:
		if v == nil {
			b.WriteString("nilfunc")
		} else {
			b.WriteString(v.String())
		}
	case *Closure:
		b.WriteString("closure:" + v.Fn.String())
	default:
		fmt.Fprintf(b, "%T", v)
	}
}
