package sym

import (
	"fmt"
	"go/types"
	"regexp"
	"strconv"
	"strings"

	"golang.org/x/tools/go/ssa"
	"verif/gosym/smt"
)

func registerModels(e *Engine) {
	registerIntrinsics(e)
	registerFmt(e)
	registerErrors(e)
	registerBytealg(e)
	registerSync(e)
	registerDigest(e)
	registerMisc(e)
	registerRegexp(e)
	registerStrings(e)
	registerTime(e)
	registerContext(e)
	registerJSON(e)
	registerPath(e)
	registerURL(e)
	registerReflect(e)
}

const modelPkgPath = "github.com/regclient/regclient/internal/zzmodel"

// toModel redirects a library function to a Go-source model in zzmodel.
func (e *Engine) toModel(name, model string) {
	e.on(name, func(fr *Frame, a []Value) Value {
		pkg := e.Prog.ImportedPackage(modelPkgPath)
		if pkg == nil || pkg.Func(model) == nil {
			panic(abort("engine: model function missing: zzmodel." + model))
		}
		e.noteUse("model: " + name + " -> zzmodel." + model + " (Go-source model)")
		return fr.p.call(fr, 0, pkg.Func(model), a)
	})
}

func registerContext(e *Engine) {
	for _, n := range []string{"Background", "WithCancel", "WithCancelCause", "WithDeadline", "WithTimeout", "WithValue", "WithoutCancel", "Cause"} {
		e.toModel("context."+n, n)
	}
	e.toModel("context.TODO", "Background")
	e.toModel("(*net/http.Client).Do", "ClientDo")
}

func (e *Engine) on(name string, f func(fr *Frame, a []Value) Value) {
	e.intercepts[name] = func(fr *Frame, a []Value) (Value, bool) { return f(fr, a), true }
}

func (e *Engine) onMaybe(name string, f Intercept) { e.intercepts[name] = f }

// ---- helpers ----

func (e *Engine) namedType(pkgPath, name string) types.Type {
	pkg := e.Prog.ImportedPackage(pkgPath)
	if pkg == nil {
		panic(abort("engine: package not loaded: " + pkgPath))
	}
	t := pkg.Type(name)
	if t == nil {
		panic(abort("engine: type not found: " + pkgPath + "." + name))
	}
	return t.Type()
}

func (e *Engine) ptrTo(pkgPath, name string) types.Type {
	return types.NewPointer(e.namedType(pkgPath, name))
}

func newCell(v Value) *Value {
	c := new(Value)
	*c = v
	return c
}

var errorType = types.Universe.Lookup("error").Type()

// mkError builds an error value like errors.New.
func (p *Path) mkError(msg Str) Iface {
	return Iface{T: p.eng.ptrTo("errors", "errorString"), V: newCell(Struct{msg})}
}

// methodOf finds an exported method by name on a dynamic type.
func (p *Path) methodOf(t types.Type, name string) *ssa.Function {
	ms := p.eng.Prog.MethodSets.MethodSet(t)
	for i := 0; i < ms.Len(); i++ {
		sel := ms.At(i)
		if sel.Obj().Name() == name {
			return p.eng.Prog.MethodValue(sel)
		}
	}
	return nil
}

// callMethod invokes name on an interface value if the method exists.
func (p *Path) callMethod(fr *Frame, recv Iface, name string, args ...Value) (Value, bool) {
	if recv.T == nil {
		return nil, false
	}
	fn := p.methodOf(recv.T, name)
	if fn == nil {
		return nil, false
	}
	return p.call(fr, 0, fn, append([]Value{recv.V}, args...)), true
}

// errorString returns err.Error().
func (p *Path) errorString(fr *Frame, err Iface) Str {
	if err.T == nil {
		return CStr("<nil>")
	}
	v, ok := p.callMethod(fr, err, "Error")
	if !ok {
		return CStr("<error>")
	}
	return v.(Str)
}

// ---- fmt ----

type fmtDirective struct {
	lit   string // literal text before the directive
	spec  string // full directive e.g. %02x ("" for trailing literal)
	verb  byte
	plain bool // no flags/width/precision
	prec0 bool // precision .0
}

func parseFormat(f string) []fmtDirective {
	var out []fmtDirective
	lit := strings.Builder{}
	for i := 0; i < len(f); i++ {
		if f[i] != '%' {
			lit.WriteByte(f[i])
			continue
		}
		if i+1 < len(f) && f[i+1] == '%' {
			lit.WriteByte('%')
			i++
			continue
		}
		j := i + 1
		for j < len(f) && strings.IndexByte("+-# 0123456789.*[]", f[j]) >= 0 {
			j++
		}
		if j >= len(f) {
			lit.WriteString(f[i:])
			break
		}
		spec := f[i : j+1]
		out = append(out, fmtDirective{lit: lit.String(), spec: spec, verb: f[j], plain: j == i+1, prec0: strings.Contains(spec, ".0")})
		lit.Reset()
		i = j
	}
	out = append(out, fmtDirective{lit: lit.String()})
	return out
}

// nativeOf converts a concrete interpreter value to a Go value for fmt.
func nativeOf(v Value) (interface{}, bool) {
	switch v := v.(type) {
	case *smt.T:
		if v.Sort == smt.Bool {
			if b, ok := v.BoolVal(); ok {
				return b, true
			}
			return nil, false
		}
		if c, ok := v.Int64(); ok {
			return c, true
		}
		if v.IsConst() {
			return v.BigVal(), true
		}
		return nil, false
	case Str:
		if s, ok := v.Concrete(); ok {
			return s, true
		}
	case float64:
		return v, true
	}
	return nil, false
}

// formatArg renders one operand for a verb.
func (p *Path) formatArg(fr *Frame, d fmtDirective, arg Value) Str {
	if d.prec0 && (d.verb == 'w' || d.verb == 's' || d.verb == 'v') {
		return Str{}
	}
	it, isIface := arg.(Iface)
	var inner Value = arg
	if isIface {
		if it.T == nil {
			if d.verb == 'w' || d.verb == 'v' || d.verb == 's' {
				return CStr("%!" + string(d.verb) + "(<nil>)")
			}
			return CStr("<nil>")
		}
		inner = it.V
		if d.verb == 'T' {
			return CStr(it.T.String())
		}
		if strings.IndexByte("svwq", d.verb) >= 0 {
			if p.methodOf(it.T, "Error") != nil && types.Implements(it.T, errorType.Underlying().(*types.Interface)) {
				s := p.errorString(fr, it)
				if d.verb == 'q' {
					return strConcat(strConcat(CStr("\""), s), CStr("\""))
				}
				return s
			}
			if m := p.methodOf(it.T, "String"); m != nil && m.Signature.Params().Len() == 0 && m.Signature.Results().Len() == 1 {
				if b, ok := m.Signature.Results().At(0).Type().Underlying().(*types.Basic); ok && b.Kind() == types.String {
					v, _ := p.callMethod(fr, it, "String")
					return v.(Str)
				}
			}
		}
	}
	spec := d.spec
	if d.verb == 'w' {
		spec = spec[:len(spec)-1] + "v"
	}
	if n, ok := nativeOf(inner); ok {
		// a named integer type with %s/%v would need its String method (handled above)
		return CStr(fmt.Sprintf(spec, n))
	}
	switch v := inner.(type) {
	case Str:
		v = p.conc(v)
		switch d.verb {
		case 's', 'v':
			if d.plain || d.spec == "%+v" || d.spec == "%#v" {
				return v
			}
		case 'q':
			return strConcat(strConcat(CStr("\""), v), CStr("\""))
		}
		return v
	case *smt.T:
		if v.Sort == smt.Bool {
			return Str{Fin: &Fin{Choices: []string{"false", "true"}, Idx: smt.Ite(v, smt.I(1), smt.I(0))}}
		}
		p.eng.noteUse("model: decimal rendering of a symbolic integer is an opaque token")
		return AtomStr(&Atom{ID: v, Len: 1, Kind: "dec"})
	case []Value:
		if isIface {
			if sl, ok := it.T.Underlying().(*types.Slice); ok {
				if b, ok := sl.Elem().Underlying().(*types.Basic); ok && b.Kind() == types.Uint8 && (d.verb == 's' || d.verb == 'x') {
					if d.verb == 's' {
						return bytesToStr(v)
					}
				}
			}
		}
	}
	return CStr("<" + d.spec + ">")
}

func (p *Path) sprintf(fr *Frame, format Value, args []Value) (Str, []Iface) {
	f, ok := format.(Str).Concrete()
	if !ok {
		panic(abort("unsupported: symbolic format string"))
	}
	var out Str
	var wrapped []Iface
	ai := 0
	for _, d := range parseFormat(f) {
		out = strConcat(out, CStr(d.lit))
		if d.spec == "" {
			continue
		}
		if ai >= len(args) {
			out = strConcat(out, CStr("%!"+string(d.verb)+"(MISSING)"))
			continue
		}
		arg := args[ai]
		ai++
		if d.verb == 'w' {
			if it, ok := arg.(Iface); ok && it.T != nil && types.Implements(it.T, errorType.Underlying().(*types.Interface)) {
				wrapped = append(wrapped, it)
			}
		}
		piece := p.formatArg(fr, d, arg)
		if piece.Fin != nil && !finConcatOK(out, piece) {
			piece = p.conc(piece)
		}
		out = strConcat(out, piece)
	}
	return out, wrapped
}

func registerFmt(e *Engine) {
	e.on("fmt.Sprintf", func(fr *Frame, a []Value) Value {
		s, _ := fr.p.sprintf(fr, a[0], a[1].([]Value))
		return s
	})
	e.on("fmt.Errorf", func(fr *Frame, a []Value) Value {
		p := fr.p
		s, wrapped := p.sprintf(fr, a[0], a[1].([]Value))
		switch len(wrapped) {
		case 0:
			return p.mkError(s)
		case 1:
			return Iface{T: e.ptrTo("fmt", "wrapError"), V: newCell(Struct{s, wrapped[0]})}
		}
		errs := make([]Value, len(wrapped))
		for i, w := range wrapped {
			errs[i] = w
		}
		return Iface{T: e.ptrTo("fmt", "wrapErrors"), V: newCell(Struct{s, errs})}
	})
	sprint := func(sep, end string) func(fr *Frame, a []Value) Value {
		return func(fr *Frame, a []Value) Value {
			var out Str
			for i, v := range a[0].([]Value) {
				if i > 0 && sep != "" {
					out = strConcat(out, CStr(sep))
				}
				piece := fr.p.formatArg(fr, fmtDirective{spec: "%v", verb: 'v', plain: true}, v)
				if piece.Fin != nil && !finConcatOK(out, piece) {
					piece = fr.p.conc(piece)
				}
				out = strConcat(out, piece)
			}
			return strConcat(out, CStr(end))
		}
	}
	e.on("fmt.Sprint", sprint("", ""))
	e.on("fmt.Sprintln", sprint(" ", "\n"))
	noop2 := func(fr *Frame, a []Value) Value { return Tuple{smt.I(0), Iface{}} }
	for _, n := range []string{"fmt.Printf", "fmt.Println", "fmt.Print", "fmt.Fprintf", "fmt.Fprintln", "fmt.Fprint"} {
		e.on(n, noop2)
	}
}

// ---- errors ----

func (p *Path) errorsIs(fr *Frame, err, target Iface) bool {
	if err.T == nil || target.T == nil {
		return err.T == nil && target.T == nil
	}
	comparable := types.Comparable(target.T)
	for {
		if comparable && p.Branch(equals(nil, err, target)) {
			return true
		}
		if m := p.methodOf(err.T, "Is"); m != nil && m.Signature.Params().Len() == 1 {
			r := p.call(fr, 0, m, []Value{err.V, target})
			if p.Branch(r.(*smt.T)) {
				return true
			}
		}
		m := p.methodOf(err.T, "Unwrap")
		if m == nil || m.Signature.Params().Len() != 0 || m.Signature.Results().Len() != 1 {
			return false
		}
		r := p.call(fr, 0, m, []Value{err.V})
		switch r := r.(type) {
		case Iface:
			if r.T == nil {
				return false
			}
			err = r
		case []Value:
			for _, e := range r {
				if ei := e.(Iface); ei.T != nil && p.errorsIs(fr, ei, target) {
					return true
				}
			}
			return false
		default:
			return false
		}
	}
}

func (p *Path) errorsAs(fr *Frame, err Iface, target Iface) bool {
	if err.T == nil {
		return false
	}
	ptr, ok := target.T.Underlying().(*types.Pointer)
	if !ok {
		panic(targetPanic{v: p.mkError(CStr("errors: target must be a non-nil pointer"))})
	}
	want := ptr.Elem()
	cell := target.V.(*Value)
	for {
		if wi, ok := want.Underlying().(*types.Interface); ok {
			if types.Implements(err.T, wi) {
				store(cell, err)
				return true
			}
		} else if types.Identical(err.T, want) {
			store(cell, err.V)
			return true
		}
		if m := p.methodOf(err.T, "As"); m != nil && m.Signature.Params().Len() == 1 {
			r := p.call(fr, 0, m, []Value{err.V, target})
			if p.Branch(r.(*smt.T)) {
				return true
			}
		}
		m := p.methodOf(err.T, "Unwrap")
		if m == nil || m.Signature.Params().Len() != 0 || m.Signature.Results().Len() != 1 {
			return false
		}
		r := p.call(fr, 0, m, []Value{err.V})
		switch r := r.(type) {
		case Iface:
			if r.T == nil {
				return false
			}
			err = r
		case []Value:
			for _, e := range r {
				if ei := e.(Iface); ei.T != nil && p.errorsAs(fr, ei, target) {
					return true
				}
			}
			return false
		default:
			return false
		}
	}
}

func registerErrors(e *Engine) {
	e.on("errors.Is", func(fr *Frame, a []Value) Value {
		return smt.B(fr.p.errorsIs(fr, a[0].(Iface), a[1].(Iface)))
	})
	e.on("errors.As", func(fr *Frame, a []Value) Value {
		return smt.B(fr.p.errorsAs(fr, a[0].(Iface), a[1].(Iface)))
	})
}

// ---- internal/bytealg and friends ----

func asBytes(p *Path, v Value) []Value {
	switch v := v.(type) {
	case Str:
		return p.conc(v).toBytes()
	case []Value:
		return v
	}
	panic(fmt.Sprintf("asBytes: %T", v))
}

// byteEq returns a term for a == b where elements may be atom bytes.
func byteEq(a, b Value) *smt.T {
	switch x := a.(type) {
	case *smt.T:
		y, ok := b.(*smt.T)
		if !ok {
			return atomByteVsConst(b.(*AtomByte), x)
		}
		return smt.Eq(x, y)
	case *AtomByte:
		switch y := b.(type) {
		case *AtomByte:
			if x.Off != y.Off {
				panic(abort("unsupported: misaligned opaque token comparison"))
			}
			if x.Off == 0 {
				return atomEq(x.A, y.A)
			}
			return smt.True
		case *smt.T:
			return atomByteVsConst(x, y)
		}
	}
	panic("byteEq")
}

func atomByteVsConst(a *AtomByte, c *smt.T) *smt.T {
	if v, ok := c.Int64(); ok && a.A.Kind == "hex" {
		if !(v >= '0' && v <= '9' || v >= 'a' && v <= 'f') {
			return smt.False
		}
	}
	if v, ok := c.Int64(); ok && a.A.Kind == "dec" {
		if !(v >= '0' && v <= '9' || v == '-') {
			return smt.False
		}
		if v == '-' && !a.A.ID.LoInf && a.A.ID.Lo >= 0 {
			return smt.False // a non-negative number has no sign
		}
	}
	if v, ok := c.Int64(); ok && a.A.Kind == "tok" {
		if !(v >= '0' && v <= '9' || v >= 'a' && v <= 'z' || v >= 'A' && v <= 'Z') {
			return smt.False
		}
	}
	panic(abort("unsupported: comparing a byte of an opaque token (" + a.A.Kind + ") with " + c.String()))
}

func (p *Path) indexByte(s []Value, c Value) *smt.T {
	for i, b := range s {
		if p.Branch(byteEq(b, c)) {
			return smt.I(int64(i))
		}
	}
	return smt.I(-1)
}

func (p *Path) bytesEqual(a, b []Value) *smt.T {
	if len(a) != len(b) {
		return smt.False
	}
	var cs []*smt.T
	for i := range a {
		c := byteEq(a[i], b[i])
		if c == smt.False {
			return smt.False
		}
		cs = append(cs, c)
	}
	return smt.And(cs...)
}

func (p *Path) indexBytes(s, sep []Value) *smt.T {
	n := len(sep)
	for i := 0; i+n <= len(s); i++ {
		if p.Branch(p.bytesEqual(s[i:i+n], sep)) {
			return smt.I(int64(i))
		}
	}
	return smt.I(-1)
}

func (p *Path) compareBytes(a, b []Value) *smt.T {
	n := min(len(a), len(b))
	for i := 0; i < n; i++ {
		x, y := a[i].(*smt.T), b[i].(*smt.T)
		if p.Branch(smt.Lt(x, y)) {
			return smt.I(-1)
		}
		if p.Branch(smt.Lt(y, x)) {
			return smt.I(1)
		}
	}
	switch {
	case len(a) < len(b):
		return smt.I(-1)
	case len(a) > len(b):
		return smt.I(1)
	}
	return smt.I(0)
}

func registerBytealg(e *Engine) {
	idxb := func(fr *Frame, a []Value) Value { return fr.p.indexByte(asBytes(fr.p, a[0]), a[1]) }
	e.on("internal/bytealg.IndexByte", idxb)
	e.on("internal/bytealg.IndexByteString", idxb)
	e.on("bytes.IndexByte", idxb)
	e.on("strings.IndexByte", idxb)
	lastb := func(fr *Frame, a []Value) Value {
		s := asBytes(fr.p, a[0])
		for i := len(s) - 1; i >= 0; i-- {
			if fr.p.Branch(byteEq(s[i], a[1])) {
				return smt.I(int64(i))
			}
		}
		return smt.I(-1)
	}
	e.on("internal/bytealg.LastIndexByte", lastb)
	e.on("internal/bytealg.LastIndexByteString", lastb)
	e.on("strings.LastIndexByte", lastb)
	e.on("bytes.LastIndexByte", lastb)
	idx := func(fr *Frame, a []Value) Value { return fr.p.indexBytes(asBytes(fr.p, a[0]), asBytes(fr.p, a[1])) }
	e.on("internal/bytealg.Index", idx)
	e.on("internal/bytealg.IndexString", idx)
	e.on("strings.Index", idx)
	e.on("bytes.Index", idx)
	e.on("internal/bytealg.Equal", func(fr *Frame, a []Value) Value {
		return fr.p.bytesEqual(asBytes(fr.p, a[0]), asBytes(fr.p, a[1]))
	})
	e.on("bytes.Equal", func(fr *Frame, a []Value) Value {
		return fr.p.bytesEqual(asBytes(fr.p, a[0]), asBytes(fr.p, a[1]))
	})
	cmp := func(fr *Frame, a []Value) Value {
		return fr.p.compareBytes(asBytes(fr.p, a[0]), asBytes(fr.p, a[1]))
	}
	e.on("internal/bytealg.Compare", cmp)
	e.on("bytes.Compare", cmp)
	e.on("strings.Compare", cmp)
	e.on("internal/bytealg.CompareString", cmp)
	cnt := func(fr *Frame, a []Value) Value {
		n := smt.I(0)
		for _, b := range asBytes(fr.p, a[0]) {
			n = smt.Add(n, smt.Ite(byteEq(b, a[1]), smt.I(1), smt.I(0)))
		}
		return n
	}
	e.on("internal/bytealg.Count", cnt)
	e.on("internal/bytealg.CountString", cnt)
	e.on("internal/bytealg.MakeNoZero", func(fr *Frame, a []Value) Value {
		n := fr.p.concInt(a[0].(*smt.T), 0, 1<<22)
		s := make([]Value, n)
		for i := range s {
			s[i] = smt.I(0)
		}
		return s
	})
	e.on("internal/stringslite.Index", idx)
	e.on("internal/stringslite.IndexByte", idxb)
}

// ---- sync ----

func registerSync(e *Engine) {
	lockField := func(m *Value, i int) *Value { return &(*m).(Struct)[i] }
	e.on("(*sync.Mutex).Lock", func(fr *Frame, a []Value) Value {
		st := lockField(a[0].(*Value), 0)
		if c, _ := (*st).(*smt.T).Int64(); c != 0 {
			fr.p.block(func() bool { c, _ := (*st).(*smt.T).Int64(); return c == 0 }, "sync.Mutex.Lock")
		}
		*st = smt.I(1)
		return nil
	})
	e.on("(*sync.Mutex).TryLock", func(fr *Frame, a []Value) Value {
		st := lockField(a[0].(*Value), 0)
		if c, _ := (*st).(*smt.T).Int64(); c != 0 {
			return smt.False
		}
		*st = smt.I(1)
		return smt.True
	})
	e.on("(*sync.Mutex).Unlock", func(fr *Frame, a []Value) Value {
		st := lockField(a[0].(*Value), 0)
		if c, _ := (*st).(*smt.T).Int64(); c == 0 {
			panic(targetPanic{v: fr.p.mkError(CStr("sync: unlock of unlocked mutex")), pos: fr.posHere()})
		}
		*st = smt.I(0)
		if fr.p.preempt > 0 && len(fr.p.runnable(fr.p.cur)) > 0 {
			// bounded pre-emption: after an unlock another goroutine may run first
			fr.p.yieldWith(func() { fr.p.preempt-- })
		}
		return nil
	})
	// RWMutex: field 0 = w Mutex (writer held in w.state), field 3 = readerCount (struct{_;v int32})
	rw := func(m *Value) (w *Value, r *Value) {
		s := (*m).(Struct)
		w = &s[0].(Struct)[0]
		rc := s[3].(Struct)
		r = &rc[len(rc)-1]
		return
	}
	geti := func(c *Value) int64 { v, _ := (*c).(*smt.T).Int64(); return v }
	e.on("(*sync.RWMutex).Lock", func(fr *Frame, a []Value) Value {
		w, r := rw(a[0].(*Value))
		if geti(w) != 0 || geti(r) != 0 {
			fr.p.block(func() bool { return geti(w) == 0 && geti(r) == 0 }, "sync.RWMutex.Lock")
		}
		*w = smt.I(1)
		return nil
	})
	e.on("(*sync.RWMutex).Unlock", func(fr *Frame, a []Value) Value {
		w, _ := rw(a[0].(*Value))
		if geti(w) == 0 {
			panic(targetPanic{v: fr.p.mkError(CStr("sync: Unlock of unlocked RWMutex")), pos: fr.posHere()})
		}
		*w = smt.I(0)
		return nil
	})
	e.on("(*sync.RWMutex).RLock", func(fr *Frame, a []Value) Value {
		w, r := rw(a[0].(*Value))
		if geti(w) != 0 {
			fr.p.block(func() bool { return geti(w) == 0 }, "sync.RWMutex.RLock")
		}
		*r = smt.I(geti(r) + 1)
		return nil
	})
	e.on("(*sync.RWMutex).RUnlock", func(fr *Frame, a []Value) Value {
		_, r := rw(a[0].(*Value))
		if geti(r) <= 0 {
			panic(targetPanic{v: fr.p.mkError(CStr("sync: RUnlock of unlocked RWMutex")), pos: fr.posHere()})
		}
		*r = smt.I(geti(r) - 1)
		return nil
	})
	// WaitGroup: keep the counter in ghost state keyed by cell
	wg := func(fr *Frame, c *Value) *int64 {
		k := fmt.Sprintf("wg:%p", c)
		if v, ok := fr.p.ghost[k]; ok {
			return v.(*int64)
		}
		n := new(int64)
		fr.p.ghost[k] = n
		return n
	}
	e.on("(*sync.WaitGroup).Add", func(fr *Frame, a []Value) Value {
		n := wg(fr, a[0].(*Value))
		*n += fr.p.concInt(a[1].(*smt.T), -1000, 1000)
		if *n < 0 {
			panic(targetPanic{v: fr.p.mkError(CStr("sync: negative WaitGroup counter")), pos: fr.posHere()})
		}
		return nil
	})
	e.on("(*sync.WaitGroup).Done", func(fr *Frame, a []Value) Value {
		n := wg(fr, a[0].(*Value))
		*n--
		if *n < 0 {
			panic(targetPanic{v: fr.p.mkError(CStr("sync: negative WaitGroup counter")), pos: fr.posHere()})
		}
		return nil
	})
	e.on("(*sync.WaitGroup).Wait", func(fr *Frame, a []Value) Value {
		n := wg(fr, a[0].(*Value))
		if *n > 0 {
			fr.p.block(func() bool { return *n == 0 }, "sync.WaitGroup.Wait")
		}
		return nil
	})
	// atomic.Value holds its interface in field 0
	e.on("(*sync/atomic.Value).Load", func(fr *Frame, a []Value) Value { return (*a[0].(*Value)).(Struct)[0] })
	e.on("(*sync/atomic.Value).Store", func(fr *Frame, a []Value) Value {
		(*a[0].(*Value)).(Struct)[0] = a[1]
		return nil
	})
	e.on("(*sync/atomic.Value).Swap", func(fr *Frame, a []Value) Value {
		s := (*a[0].(*Value)).(Struct)
		old := s[0]
		s[0] = a[1]
		return old
	})
	// atomics: plain loads and stores (tasks switch only at blocking points)
	for _, ty := range []string{"Int32", "Int64", "Uint32", "Uint64", "Uintptr", "Pointer"} {
		ty := ty
		e.on("sync/atomic.Load"+ty, func(fr *Frame, a []Value) Value { return load(a[0].(*Value)) })
		e.on("sync/atomic.Store"+ty, func(fr *Frame, a []Value) Value { store(a[0].(*Value), a[1]); return nil })
		e.on("sync/atomic.Swap"+ty, func(fr *Frame, a []Value) Value {
			old := load(a[0].(*Value))
			store(a[0].(*Value), a[1])
			return old
		})
		e.on("sync/atomic.CompareAndSwap"+ty, func(fr *Frame, a []Value) Value {
			c := a[0].(*Value)
			if fr.p.Branch(equals(nil, *c, a[1])) {
				store(c, a[2])
				return smt.True
			}
			return smt.False
		})
		if ty != "Pointer" {
			var b *types.Basic
			switch ty {
			case "Int32":
				b = types.Typ[types.Int32]
			case "Int64":
				b = types.Typ[types.Int64]
			case "Uint32":
				b = types.Typ[types.Uint32]
			default:
				b = types.Typ[types.Uint64]
			}
			e.on("sync/atomic.Add"+ty, func(fr *Frame, a []Value) Value {
				c := a[0].(*Value)
				n := fit(b, smt.Add((*c).(*smt.T), a[1].(*smt.T)))
				*c = n
				return n
			})
		}
	}
}

// ---- go-digest ----

const digestPkg = "github.com/opencontainers/go-digest"

func registerDigest(e *Engine) {
	e.on("("+digestPkg+".Algorithm).Available", func(fr *Frame, a []Value) Value {
		s := fr.p.conc(a[0].(Str))
		c, ok := s.Concrete()
		if !ok {
			// symbolic algorithm name: compare against the three known ones
			return smt.Or(strEq(s, CStr("sha256")), strEq(s, CStr("sha384")), strEq(s, CStr("sha512")))
		}
		return smt.B(c == "sha256" || c == "sha384" || c == "sha512")
	})
	e.on("("+digestPkg+".Algorithm).Size", func(fr *Frame, a []Value) Value {
		s := fr.p.conc(a[0].(Str))
		c, ok := s.Concrete()
		if !ok {
			return smt.Ite(strEq(s, CStr("sha256")), smt.I(32), smt.Ite(strEq(s, CStr("sha384")), smt.I(48), smt.Ite(strEq(s, CStr("sha512")), smt.I(64), smt.I(0))))
		}
		switch c {
		case "sha256":
			return smt.I(32)
		case "sha384":
			return smt.I(48)
		case "sha512":
			return smt.I(64)
		}
		return smt.I(0)
	})
	e.on("("+digestPkg+".Algorithm).Hash", func(fr *Frame, a []Value) Value {
		alg := fr.p.conc(a[0].(Str))
		c, ok := alg.Concrete()
		if !ok || !(c == "sha256" || c == "sha384" || c == "sha512") {
			// real code returns nil for unavailable algorithms (after Available check)
			return Iface{}
		}
		ht := e.namedType("github.com/regclient/regclient/internal/zzmodel", "Hash")
		cell := newCell(Struct{CStr(c), []Value(nil), smt.I(0)})
		return Iface{T: types.NewPointer(ht), V: cell}
	})
	finish := func(fr *Frame, alg Str, h Iface) Value {
		c, ok := alg.Concrete()
		if !ok {
			panic(abort("unsupported: symbolic algorithm at digest finalisation"))
		}
		cell := h.V.(*Value)
		buf := (*cell).(Struct)[1].([]Value)
		return fr.p.hashDigest(c, buf)
	}
	e.on("(*"+digestPkg+".digester).Digest", func(fr *Frame, a []Value) Value {
		d := (*a[0].(*Value)).(Struct)
		return finish(fr, fr.p.conc(d[0].(Str)), d[1].(Iface))
	})
	e.on(digestPkg+".NewDigest", func(fr *Frame, a []Value) Value {
		return finish(fr, fr.p.conc(a[0].(Str)), a[1].(Iface))
	})
	e.on("("+digestPkg+".Algorithm).FromBytes", func(fr *Frame, a []Value) Value {
		c, ok := fr.p.conc(a[0].(Str)).Concrete()
		if !ok {
			panic(abort("unsupported: symbolic algorithm in FromBytes"))
		}
		return fr.p.hashDigest(c, a[1].([]Value))
	})
	e.on("("+digestPkg+".Algorithm).FromString", func(fr *Frame, a []Value) Value {
		c, ok := fr.p.conc(a[0].(Str)).Concrete()
		if !ok {
			panic(abort("unsupported: symbolic algorithm in FromString"))
		}
		return fr.p.hashDigest(c, fr.p.conc(a[1].(Str)).toBytes())
	})
}

// ---- misc runtime / os / logging ----

// sortSlice implements sort.Slice / sort.SliceStable: a stable insertion sort
// that calls the real less function (symbolic comparisons fork).
func sortSlice(fr *Frame, a []Value) Value {
	it := a[0].(Iface)
	s, ok := it.V.([]Value)
	if !ok {
		panic(abort("unsupported: sort.Slice on a non-slice"))
	}
	less := a[1]
	for i := 1; i < len(s); i++ {
		for j := i; j > 0; j-- {
			r := fr.p.call(fr, 0, less, []Value{smt.I(int64(j)), smt.I(int64(j - 1))})
			if !fr.p.Branch(r.(*smt.T)) {
				break
			}
			s[j], s[j-1] = s[j-1], s[j]
		}
	}
	return nil
}

func registerMisc(e *Engine) {
	e.on("sort.Slice", sortSlice)
	e.on("sort.SliceStable", sortSlice)
	nop := func(fr *Frame, a []Value) Value { return nil }
	for _, n := range []string{"runtime.GC", "runtime.Gosched", "runtime.KeepAlive", "runtime.SetFinalizer",
		"internal/race.Acquire", "internal/race.Release", "internal/race.ReleaseMerge", "internal/race.Disable", "internal/race.Enable",
		"internal/race.Read", "internal/race.Write", "internal/race.ReadRange", "internal/race.WriteRange"} {
		e.on(n, nop)
	}
	// the CPU variant of the machine (cpuid assembly natively): an arbitrary one of the documented values
	e.on("github.com/regclient/regclient/types/platform.cpuVariant", func(fr *Frame, a []Value) Value {
		e.noteUse("model: the local CPU variant is an arbitrary value of {\"\", v1..v4} (environment)")
		// one machine per run: the same value at every call on a path
		if v, ok := fr.p.ghost["env_cpu_variant"]; ok {
			return v.(Str)
		}
		f := &Fin{Choices: []string{"", "v1", "v2", "v3", "v4"}}
		f.Idx = fr.p.symInt("env_cpu_variant", 0, 4)
		r := Str{Fin: f}
		fr.p.ghost["env_cpu_variant"] = r
		return r
	})
	e.on("runtime/debug.ReadBuildInfo", func(fr *Frame, a []Value) Value { return Tuple{(*Value)(nil), smt.False} })
	e.on("os.Getenv", func(fr *Frame, a []Value) Value { return Str{} })
	e.on("os.LookupEnv", func(fr *Frame, a []Value) Value { return Tuple{Str{}, smt.False} })
	e.on("runtime.GOMAXPROCS", func(fr *Frame, a []Value) Value { return smt.I(4) })
	e.on("runtime.NumCPU", func(fr *Frame, a []Value) Value { return smt.I(4) })
	// log/slog: every logger method is a no-op; arguments are recorded for
	// taint checks through the "log" ghost list.
	logRec := func(fr *Frame, a []Value) Value {
		if rec, ok := fr.p.ghost["logrec"]; ok {
			*(rec.(*[]Value)) = append(*(rec.(*[]Value)), a...)
		}
		return nil
	}
	for _, m := range []string{"Debug", "Info", "Warn", "Error", "Log", "DebugContext", "InfoContext", "WarnContext", "ErrorContext", "LogAttrs"} {
		e.on("(*log/slog.Logger)."+m, logRec)
	}
	e.on("(*log/slog.Logger).Enabled", func(fr *Frame, a []Value) Value { return smt.True })
	e.on("(*log/slog.Logger).With", func(fr *Frame, a []Value) Value { return a[0] })
	e.on("(*log/slog.Logger).WithGroup", func(fr *Frame, a []Value) Value { return a[0] })
	e.on("(*log/slog.Logger).Handler", func(fr *Frame, a []Value) Value { return Iface{} })
	e.on("log/slog.Default", func(fr *Frame, a []Value) Value {
		return newCell(zero(e.namedType("log/slog", "Logger")))
	})
	e.on("log/slog.NewTextHandler", func(fr *Frame, a []Value) Value { return (*Value)(nil) })
	e.on("log/slog.NewJSONHandler", func(fr *Frame, a []Value) Value { return (*Value)(nil) })
	e.on("log/slog.New", func(fr *Frame, a []Value) Value {
		return newCell(zero(e.namedType("log/slog", "Logger")))
	})
	attr := func(fr *Frame, a []Value) Value {
		z := zero(e.namedType("log/slog", "Attr")).(Struct)
		z[0] = a[0]
		// keep the value reachable for taint checks: stash it in the Value.any field
		if len(a) > 1 {
			v := z[1].(Struct)
			v[len(v)-1] = Iface{T: types.Typ[types.Int], V: smt.I(0)}
			if rec, ok := fr.p.ghost["logrec"]; ok {
				*(rec.(*[]Value)) = append(*(rec.(*[]Value)), a[1:]...)
			}
		}
		return z
	}
	for _, n := range []string{"String", "Int", "Int64", "Uint64", "Bool", "Any", "Duration", "Time", "Float64", "Group"} {
		e.on("log/slog."+n, attr)
	}
	e.on("(log/slog.Level).Level", func(fr *Frame, a []Value) Value { return a[0] })
	// logrus (older call sites)
	for _, m := range []string{"Debug", "Info", "Warn", "Error", "Debugf", "Infof", "Warnf", "Errorf", "Trace", "Tracef"} {
		e.on("(*github.com/sirupsen/logrus.Entry)."+m, logRec)
		e.on("(*github.com/sirupsen/logrus.Logger)."+m, logRec)
	}
	e.on("(*github.com/sirupsen/logrus.Logger).WithFields", func(fr *Frame, a []Value) Value {
		logRec(fr, a[1:])
		return newCell(zero(e.namedType("github.com/sirupsen/logrus", "Entry")))
	})
	e.on("(*github.com/sirupsen/logrus.Entry).WithFields", func(fr *Frame, a []Value) Value {
		logRec(fr, a[1:])
		return a[0]
	})
	e.on("(*github.com/sirupsen/logrus.Logger).IsLevelEnabled", func(fr *Frame, a []Value) Value { return smt.True })
	e.on("(*sync.Once).Do", func(fr *Frame, a []Value) Value {
		o := (*a[0].(*Value)).(Struct)
		// field 0 is done (atomic.Uint32 or uint32 depending on Go version)
		var done *Value
		switch d := o[0].(type) {
		case Struct:
			done = &d[len(d)-1]
		default:
			done = &o[0]
		}
		if c, _ := (*done).(*smt.T).Int64(); c != 0 {
			return nil
		}
		*done = smt.I(1)
		fr.p.call(fr, 0, a[1], nil)
		return nil
	})
	e.on("strconv.Itoa", func(fr *Frame, a []Value) Value {
		if c, ok := a[0].(*smt.T).Int64(); ok {
			return CStr(strconv.FormatInt(c, 10))
		}
		fr.p.eng.noteUse("model: decimal rendering of a symbolic integer is an opaque token")
		return AtomStr(&Atom{ID: a[0].(*smt.T), Len: 1, Kind: "dec"})
	})
	e.on("strconv.FormatInt", func(fr *Frame, a []Value) Value {
		if c, ok := a[0].(*smt.T).Int64(); ok {
			base, _ := a[1].(*smt.T).Int64()
			return CStr(strconv.FormatInt(c, int(base)))
		}
		if b, _ := a[1].(*smt.T).Int64(); b == 10 {
			return AtomStr(&Atom{ID: a[0].(*smt.T), Len: 1, Kind: "dec"})
		}
		panic(abort("unsupported: FormatInt of symbolic value in base != 10"))
	})
	// the digit loop of strconv on a symbolic value: render as an opaque decimal token
	e.onMaybe("strconv.formatBits", func(fr *Frame, a []Value) (Value, bool) {
		u := a[1].(*smt.T)
		if u.IsConst() {
			return nil, false
		}
		if b, _ := a[2].(*smt.T).Int64(); b != 10 {
			panic(abort("unsupported: formatting a symbolic integer in base != 10"))
		}
		id := u
		if neg, _ := a[3].(*smt.T).BoolVal(); neg {
			id = smt.Neg(u)
		}
		fr.p.eng.noteUse("model: decimal rendering of a symbolic integer is an opaque token")
		atom := AtomStr(&Atom{ID: id, Len: 1, Kind: "dec"})
		if app, _ := a[4].(*smt.T).BoolVal(); app {
			return Tuple{append(append([]Value(nil), a[0].([]Value)...), atom.toBytes()...), Str{}}, true
		}
		return Tuple{[]Value(nil), atom}, true
	})
	atoi := func(fr *Frame, s Str) (Value, bool) {
		if len(s.Segs) == 1 && s.Segs[0].A != nil && s.Segs[0].A.Kind == "dec" {
			return Tuple{s.Segs[0].A.ID, Iface{}}, true
		}
		return nil, false
	}
	e.onMaybe("strconv.Atoi", func(fr *Frame, a []Value) (Value, bool) { return atoi(fr, a[0].(Str)) })
	e.onMaybe("strconv.ParseInt", func(fr *Frame, a []Value) (Value, bool) { return atoi(fr, a[0].(Str)) })
	e.onMaybe("strconv.ParseUint", func(fr *Frame, a []Value) (Value, bool) {
		s := a[0].(Str)
		if len(s.Segs) == 1 && s.Segs[0].A != nil && s.Segs[0].A.Kind == "dec" {
			id := s.Segs[0].A.ID
			if fr.p.Branch(smt.Lt(id, smt.I(0))) {
				return Tuple{smt.I(0), fr.p.mkError(CStr("strconv.ParseUint: invalid syntax"))}, true
			}
			return Tuple{id, Iface{}}, true
		}
		return nil, false
	})
}

// ---- regexp (concrete inputs natively; symbolic inputs via nfa.go) ----

type reModel struct {
	pat string
	re  *regexp.Regexp
	pi  *progInfo
}

func (p *Path) reOf(v Value) *reModel {
	c := v.(*Value)
	if c == nil {
		panic(targetPanic{v: p.mkError(CStr("nil *regexp.Regexp"))})
	}
	o, ok := (*c).(*Opaque)
	if !ok {
		panic(abort("engine: regexp value is not a model object"))
	}
	return o.X.(*reModel)
}

func registerRegexp(e *Engine) {
	compile := func(fr *Frame, a []Value) (*Value, error) {
		pat, ok := fr.p.conc(a[0].(Str)).Concrete()
		if !ok {
			panic(abort("unsupported: symbolic regexp pattern"))
		}
		re, err := regexp.Compile(pat)
		if err != nil {
			return nil, err
		}
		return newCell(&Opaque{Kind: "regexp", X: &reModel{pat: pat, re: re}}), nil
	}
	e.on("regexp.MustCompile", func(fr *Frame, a []Value) Value {
		c, err := compile(fr, a)
		if err != nil {
			panic(targetPanic{v: fr.p.mkError(CStr("regexp: " + err.Error()))})
		}
		return c
	})
	e.on("regexp.Compile", func(fr *Frame, a []Value) Value {
		c, err := compile(fr, a)
		if err != nil {
			return Tuple{(*Value)(nil), fr.p.mkError(CStr(err.Error()))}
		}
		return Tuple{c, Iface{}}
	})
	e.on("regexp.MatchString", func(fr *Frame, a []Value) Value {
		c, err := compile(fr, a)
		if err != nil {
			return Tuple{smt.False, fr.p.mkError(CStr(err.Error()))}
		}
		return Tuple{fr.p.reMatch(fr.p.reOf(c), a[1].(Str)), Iface{}}
	})
	e.on("(*regexp.Regexp).String", func(fr *Frame, a []Value) Value { return CStr(fr.p.reOf(a[0]).pat) })
	e.on("(*regexp.Regexp).MatchString", func(fr *Frame, a []Value) Value {
		return fr.p.reMatch(fr.p.reOf(a[0]), a[1].(Str))
	})
	e.on("(*regexp.Regexp).Match", func(fr *Frame, a []Value) Value {
		return fr.p.reMatch(fr.p.reOf(a[0]), bytesToStr(a[1].([]Value)))
	})
	e.on("(*regexp.Regexp).FindStringSubmatch", func(fr *Frame, a []Value) Value {
		return fr.p.reSubmatch(fr.p.reOf(a[0]), a[1].(Str))
	})
	e.on("(*regexp.Regexp).SubexpNames", func(fr *Frame, a []Value) Value {
		var out []Value
		for _, n := range fr.p.reOf(a[0]).re.SubexpNames() {
			out = append(out, CStr(n))
		}
		return out
	})
	e.on("(*regexp.Regexp).ReplaceAllString", func(fr *Frame, a []Value) Value {
		return fr.p.reReplaceAll(fr.p.reOf(a[0]), a[1].(Str), a[2].(Str))
	})
	e.on("(*regexp.Regexp).ReplaceAll", func(fr *Frame, a []Value) Value {
		src := bytesToStr(a[1].([]Value))
		repl := bytesToStr(a[2].([]Value))
		return fr.p.reReplaceAll(fr.p.reOf(a[0]), src, repl).(Str).toBytes()
	})
	concOnly := func(name string, f func(re *regexp.Regexp, s string) Value) {
		e.on("(*regexp.Regexp)."+name, func(fr *Frame, a []Value) Value {
			s, ok := fr.p.conc(a[1].(Str)).Concrete()
			if !ok {
				panic(abort("unsupported: regexp." + name + " on a symbolic string"))
			}
			return f(fr.p.reOf(a[0]).re, s)
		})
	}
	concOnly("FindString", func(re *regexp.Regexp, s string) Value { return CStr(re.FindString(s)) })
	concOnly("FindAllString", func(re *regexp.Regexp, s string) Value {
		var out []Value
		for _, m := range re.FindAllString(s, -1) {
			out = append(out, CStr(m))
		}
		return out
	})
	e.on("(*regexp.Regexp).NumSubexp", func(fr *Frame, a []Value) Value { return smt.I(int64(fr.p.reOf(a[0]).re.NumSubexp())) })
	e.on("(*regexp.Regexp).FindStringIndex", func(fr *Frame, a []Value) Value {
		s, ok := fr.p.conc(a[1].(Str)).Concrete()
		if !ok {
			panic(abort("unsupported: FindStringIndex on symbolic string"))
		}
		loc := fr.p.reOf(a[0]).re.FindStringIndex(s)
		if loc == nil {
			return []Value(nil)
		}
		return []Value{smt.I(int64(loc[0])), smt.I(int64(loc[1]))}
	})
	e.on("(*regexp.Regexp).FindAllStringSubmatch", func(fr *Frame, a []Value) Value {
		s, ok := fr.p.conc(a[1].(Str)).Concrete()
		if !ok {
			panic(abort("unsupported: FindAllStringSubmatch on symbolic string"))
		}
		n, _ := a[2].(*smt.T).Int64()
		var out []Value
		for _, m := range fr.p.reOf(a[0]).re.FindAllStringSubmatch(s, int(n)) {
			var row []Value
			for _, g := range m {
				row = append(row, CStr(g))
			}
			out = append(out, row)
		}
		return out
	})
	e.on("regexp.QuoteMeta", func(fr *Frame, a []Value) Value {
		s, ok := fr.p.conc(a[0].(Str)).Concrete()
		if !ok {
			panic(abort("unsupported: QuoteMeta on symbolic string"))
		}
		return CStr(regexp.QuoteMeta(s))
	})
}

// ---- strings: native fast paths for concrete arguments ----

func registerStrings(e *Engine) {
	c1 := func(name string, f func(string) string) {
		e.onMaybe(name, func(fr *Frame, a []Value) (Value, bool) {
			if s, ok := a[0].(Str).Concrete(); ok {
				return CStr(f(s)), true
			}
			return nil, false
		})
	}
	caseMap := func(name string, native func(string) string, lo, hi, delta int64) {
		e.onMaybe(name, func(fr *Frame, a []Value) (Value, bool) {
			s := fr.p.conc(a[0].(Str))
			if c, ok := s.Concrete(); ok {
				return CStr(native(c)), true
			}
			var bl builder
			for _, g := range s.Segs {
				switch {
				case g.A != nil:
					bl.addSeg(g) // tokens are case-stable by assumption (hex digests are lower case)
				case g.B != nil:
					fr.p.assumeASCII(g.B)
					nb := smt.Ite(smt.And(smt.Le(smt.I(lo), g.B), smt.Le(g.B, smt.I(hi))), smt.Add(g.B, smt.I(delta)), g.B)
					if d := getByteDom(g.B); d != nil && nb != g.B {
						var nd [128]bool
						for c := int64(0); c < 128; c++ {
							if d[c] {
								if c >= lo && c <= hi {
									nd[c+delta] = true
								} else {
									nd[c] = true
								}
							}
						}
						setByteDom(nb, &nd)
					}
					bl.addByte(nb)
				default:
					bl.addSeg(Seg{S: native(g.S)})
				}
			}
			return bl.str(), true
		})
	}
	caseMap("strings.ToLower", strings.ToLower, 'A', 'Z', 32)
	caseMap("strings.ToUpper", strings.ToUpper, 'a', 'z', -32)
	c1("strings.TrimSpace", strings.TrimSpace)
	c1("net/textproto.CanonicalMIMEHeaderKey", canonicalHeader)
	c1("net/http.CanonicalHeaderKey", canonicalHeader)
	e.onMaybe("strings.Split", func(fr *Frame, a []Value) (Value, bool) {
		s, ok1 := a[0].(Str).Concrete()
		sep, ok2 := a[1].(Str).Concrete()
		if !ok1 || !ok2 {
			return nil, false
		}
		var out []Value
		for _, x := range strings.Split(s, sep) {
			out = append(out, CStr(x))
		}
		return out, true
	})
	e.onMaybe("strings.Join", func(fr *Frame, a []Value) (Value, bool) {
		var out Str
		sep := fr.p.conc(a[1].(Str))
		for i, x := range a[0].([]Value) {
			if i > 0 {
				out = strConcat(out, sep)
			}
			out = strConcat(out, fr.p.conc(x.(Str)))
		}
		return out, true
	})
	e.onMaybe("strings.Repeat", func(fr *Frame, a []Value) (Value, bool) {
		s, ok := a[0].(Str).Concrete()
		n, ok2 := a[1].(*smt.T).Int64()
		if ok && ok2 && n >= 0 {
			return CStr(strings.Repeat(s, int(n))), true
		}
		return nil, false
	})
	// strings.Builder / bytes.Buffer run from their real SSA, except for the
	// unsafe string conversion at the end
	e.on("(*strings.Builder).String", func(fr *Frame, a []Value) Value {
		b := (*a[0].(*Value)).(Struct)
		return bytesToStr(b[1].([]Value))
	})
	e.on("(*strings.Builder).copyCheck", func(fr *Frame, a []Value) Value { return nil })
	e.on("unsafe.String", func(fr *Frame, a []Value) Value { panic(abort("unsupported: unsafe.String")) })
	e.on("strings.Clone", func(fr *Frame, a []Value) Value { return a[0] })
	e.on("internal/stringslite.Clone", func(fr *Frame, a []Value) Value { return a[0] })
}

func canonicalHeader(s string) string {
	// textproto.CanonicalMIMEHeaderKey without importing net/textproto
	b := []byte(s)
	upper := true
	for i, c := range b {
		if !(c >= 'a' && c <= 'z' || c >= 'A' && c <= 'Z' || c >= '0' && c <= '9' || strings.IndexByte("!#$%&'*+-.^_`|~", c) >= 0) {
			return s
		}
		if upper && c >= 'a' && c <= 'z' {
			b[i] = c - 32
		} else if !upper && c >= 'A' && c <= 'Z' {
			b[i] = c + 32
		}
		upper = c == '-'
	}
	return string(b)
}
