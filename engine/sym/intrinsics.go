package sym

import (
	"fmt"

	"verif/gosym/smt"
)

func (p *Path) newInput(name, kind string, t *smt.T) {
	seq := 0
	for _, in := range p.inputs {
		if in.Name == name {
			seq++
		}
	}
	p.inputs = append(p.inputs, Input{Name: name, Seq: seq, Kind: kind, Term: t})
}

func (p *Path) symInt(name string, lo, hi int64) *smt.T {
	if lo == hi {
		t := smt.I(lo)
		p.newInput(name, "int", t)
		return t
	}
	n, _ := p.freshName(name)
	t := p.regVar(smt.VarRange(n, lo, hi))
	p.newInput(name, "int", t)
	p.addPC(smt.InRange(t, lo, hi))
	return t
}

func (p *Path) symBool(name string) *smt.T {
	n, _ := p.freshName(name)
	t := p.regVar(smt.Var(n, smt.Bool))
	p.newInput(name, "bool", t)
	return t
}

func concStr(v Value) string {
	s, ok := v.(Str).Concrete()
	if !ok {
		panic(abort("engine: intrinsic needs a constant string argument"))
	}
	return s
}

func concI(v Value) int64 {
	c, ok := v.(*smt.T).Int64()
	if !ok {
		panic(abort("engine: intrinsic needs a constant int argument"))
	}
	return c
}

func registerIntrinsics(e *Engine) {
	reg := func(name string, f func(fr *Frame, a []Value) Value) {
		e.intercepts["zz:"+name] = func(fr *Frame, a []Value) (Value, bool) { return f(fr, a), true }
	}
	reg("zzInt", func(fr *Frame, a []Value) Value {
		lo := fr.p.concInt(a[1].(*smt.T), -1<<40, 1<<40)
		hi := fr.p.concInt(a[2].(*smt.T), -1<<40, 1<<40)
		if hi < lo {
			panic(pathDone{"empty zzInt range"})
		}
		return fr.p.symInt(concStr(a[0]), lo, hi)
	})
	reg("zzBool", func(fr *Frame, a []Value) Value { return fr.p.symBool(concStr(a[0])) })
	reg("zzByte", func(fr *Frame, a []Value) Value { return fr.p.symInt(concStr(a[0]), 0, 255) })
	reg("zzAscii", func(fr *Frame, a []Value) Value { return fr.p.symInt(concStr(a[0]), 0, 127) })
	reg("zzBytes", func(fr *Frame, a []Value) Value {
		n := fr.p.concInt(a[1].(*smt.T), 0, 1<<16)
		out := make([]Value, n)
		for i := range out {
			out[i] = fr.p.symInt(concStr(a[0]), 0, 255)
		}
		return out
	})
	reg("zzString", func(fr *Frame, a []Value) Value {
		n := fr.p.concInt(a[1].(*smt.T), 0, 1<<16)
		bs := make([]*smt.T, n)
		for i := range bs {
			bs[i] = fr.p.symInt(concStr(a[0]), 0, 127)
		}
		return BytesStr(bs)
	})
	reg("zzStringOf", func(fr *Frame, a []Value) Value {
		// zzStringOf(name, n, class): n symbolic bytes drawn from a character class like "a-z0-9._-"
		p := fr.p
		n := p.concInt(a[1].(*smt.T), 0, 1<<16)
		class := concStr(a[2])
		var dom [128]bool
		var rs [][2]int
		for i := 0; i < len(class); i++ {
			lo, hi := int(class[i]), int(class[i])
			if i+2 < len(class) && class[i+1] == '-' {
				hi = int(class[i+2])
				i += 2
			}
			rs = append(rs, [2]int{lo, hi})
			for c := lo; c <= hi && c < 128; c++ {
				dom[c] = true
			}
		}
		bs := make([]*smt.T, n)
		for i := range bs {
			t := p.symInt(concStr(a[0]), 0, 127)
			var cs []*smt.T
			for _, r := range rs {
				cs = append(cs, smt.InRange(t, int64(r[0]), int64(r[1])))
			}
			p.addPC(smt.Or(cs...))
			d := dom
			setByteDom(t, &d)
			bs[i] = t
		}
		return BytesStr(bs)
	})
	reg("zzChoose", func(fr *Frame, a []Value) Value {
		opts := a[1].([]Value)
		if len(opts) == 0 {
			panic(abort("engine: zzChoose without options"))
		}
		f := &Fin{}
		for _, o := range opts {
			f.Choices = append(f.Choices, concStr(o))
		}
		f.Idx = fr.p.symInt(concStr(a[0]), 0, int64(len(opts)-1))
		if len(opts) == 1 {
			return CStr(f.Choices[0])
		}
		return Str{Fin: f}
	})
	reg("zzDigest", func(fr *Frame, a []Value) Value {
		p := fr.p
		alg := concStr(p.conc(a[1].(Str)))
		n, _ := p.freshName(concStr(a[0]))
		id := p.regVar(smt.Var(n, smt.Int))
		p.newInput(concStr(a[0]), "digest:"+alg, id)
		p.eng.noteUse("model: symbolic digests are opaque tokens (alg:hex), distinct from every literal string")
		return digestStr(alg, id)
	})
	reg("zzAssume", func(fr *Frame, a []Value) Value {
		fr.p.Assume(a[0].(*smt.T))
		return nil
	})
	reg("zzAssert", func(fr *Frame, a []Value) Value {
		fr.p.Obligation(fr, a[0].(*smt.T), concStr(a[1]), "assert", "")
		return nil
	})
	reg("zzFail", func(fr *Frame, a []Value) Value {
		fr.p.Obligation(fr, smt.False, concStr(a[0]), "assert", "")
		return nil
	})
	reg("zzReach", func(fr *Frame, a []Value) Value {
		fr.p.reach(concStr(a[0]))
		return nil
	})
	reg("zzTier", func(fr *Frame, a []Value) Value { return smt.I(int64(fr.p.eng.Cfg.Tier)) })
	reg("zzParam", func(fr *Frame, a []Value) Value {
		if v, ok := fr.p.eng.Cfg.Params[concStr(a[0])]; ok {
			return smt.I(v)
		}
		return a[1]
	})
	reg("zzSymbolic", func(fr *Frame, a []Value) Value { return smt.True })
	reg("zzYield", func(fr *Frame, a []Value) Value { fr.p.yield(); return nil })
	reg("zzMerge", func(fr *Frame, a []Value) Value {
		fr.p.eng.noteUse("merge: pure calls are explored locally and merged into ite/finite-domain values")
		return fr.p.mergedCall(fr, a[0], nil)
	})
	reg("zzSummarize", func(fr *Frame, a []Value) Value {
		fr.p.summarize[concStr(a[0])] = true
		fr.p.eng.noteUse("merge: calls of " + concStr(a[0]) + " are summarised (explored locally, post-state of pointer arguments merged)")
		return nil
	})
	reg("zzPreempt", func(fr *Frame, a []Value) Value {
		fr.p.preempt = int(concI(a[0]))
		fr.p.eng.noteUse(fmt.Sprintf("tasks: up to %d forced pre-emptions at sync.Mutex.Unlock", fr.p.preempt))
		return nil
	})
	reg("zzClockVirtual", func(fr *Frame, a []Value) Value {
		fr.p.clockVirtual = true
		fr.p.eng.noteUse("model: virtual time - the clock moves only in time.Sleep / timers, by exactly the requested duration")
		return nil
	})
	reg("zzClockHorizon", func(fr *Frame, a []Value) Value {
		fr.p.clockHorizon = a[0].(*smt.T)
		fr.p.eng.noteUse("assume: the whole run takes less wall-clock time than the stated horizon (no cache entry or deadline expires by the mere passage of time)")
		return nil
	})
	// zzTurn(id): a request-level scheduling point of task id. Any other
	// runnable task may go first (fork); the order in which tasks pass their
	// turn points is recorded in the replay vector so that the native twin
	// serves the requests in the same order.
	reg("zzTurn", func(fr *Frame, a []Value) Value {
		p := fr.p
		if !p.turnSched {
			p.turnSched = true
			p.eng.noteUse("tasks: every interleaving of the tasks at request granularity (zzTurn points); code between two requests of one task runs without interruption unless it blocks")
		}
		p.yield()
		p.newInput("zz_turn", "", a[0].(*smt.T))
		return nil
	})
	// zzTurnSig(sig): a scheduling point inside code whose goroutines the harness
	// does not own (e.g. the copy goroutines of ImageCopy), identified by what
	// the goroutine is about to do (a request signature) instead of who it is.
	// Context-bounded: switching away from the running task costs one unit of
	// the budget set by zzTurnBudget. The order of signatures is recorded.
	reg("zzTurnSig", func(fr *Frame, a []Value) Value {
		p := fr.p
		if !p.sigSched {
			p.sigSched = true
			p.eng.noteUse("tasks: request-level interleavings of internally spawned goroutines, context-bounded (zzTurnBudget switches away from a runnable task); blocked tasks hand over in spawn order")
		}
		if p.turnBudget > 0 {
			// the budget is spent before control moves, so the task switched to cannot spend it again
			p.yieldWith(func() { p.turnBudget-- })
		}
		p.newInput("zz_turn", "", a[0].(*smt.T))
		return nil
	})
	reg("zzTurnBudget", func(fr *Frame, a []Value) Value {
		fr.p.turnBudget = int(concI(a[0]))
		return nil
	})
	reg("zzTurnDone", func(fr *Frame, a []Value) Value { return nil })
	reg("zzNote", func(fr *Frame, a []Value) Value { fr.p.eng.noteUse("note: " + concStr(a[0])); return nil })
	reg("zzRedirect", func(fr *Frame, a []Value) Value {
		name := concStr(a[0])
		fn := a[1].(Iface).V
		fr.p.redirects[name] = fn
		return nil
	})
	reg("zzHashSize", func(fr *Frame, a []Value) Value {
		return smt.I(int64(hashSize(concStr(a[0]))))
	})
	reg("zzHashSum", func(fr *Frame, a []Value) Value {
		panic(abort("unsupported: raw hash sum bytes (only digest strings are modelled)"))
	})
}

// reach records that a label is reachable and keeps one witness vector.
func (p *Path) reach(label string) {
	e := p.eng
	e.mu.Lock()
	n := e.Reached[label]
	e.Reached[label] = n + 1
	e.mu.Unlock()
	if n > 0 {
		return
	}
	var want []*smt.T
	for _, in := range p.inputs {
		if in.Term.Op == smt.OVar {
			want = append(want, in.Term)
		}
	}
	for _, h := range p.hashApps {
		want = append(want, h.id)
	}
	r, m := p.check(nil, want)
	if r != smt.Sat {
		return
	}
	vec := p.vectorFull(m)
	e.mu.Lock()
	if _, ok := e.Witness[label]; !ok {
		e.Witness[label] = vec
	}
	e.mu.Unlock()
}

func hashSize(alg string) int {
	switch alg {
	case "sha256":
		return 32
	case "sha384":
		return 48
	case "sha512":
		return 64
	}
	return 32
}

func digestStr(alg string, id *smt.T) Str {
	var bl builder
	bl.addSeg(Seg{S: alg + ":"})
	bl.addSeg(Seg{A: &Atom{ID: id, Len: 2 * hashSize(alg), Kind: "hex", Info: alg}})
	return bl.str()
}

var _ = fmt.Sprint
