package sym

import (
	"fmt"
	"go/types"
	"math/big"
	"os"
	"sort"
	"strings"
	"sync"
	"time"

	"golang.org/x/tools/go/ssa"
	"verif/gosym/smt"
)

type Decision struct {
	Val    int64
	Forced bool // only one alternative was feasible: nothing was added to the PC
	Kind   byte // 'b' branch, 'v' value, 'c' choice, 'm' merged sub-exploration
	Sub    [][]Decision
}

// dstream is a decision stream: the main path's, or that of one run of a
// merged sub-exploration.
type dstream struct {
	prefix []Decision
	pos    int
	log    []Decision
	work   *[][]Decision // nil: alternatives go to the engine's global worklist
	strict bool          // replaying a recorded sub-run: no new decisions may appear
	dead   bool          // replaying a sub-run that ended infeasible: it ends where its log ends
	newDec int
}

func (p *Path) replaying() bool {
	if p.ds.pos < len(p.ds.prefix) {
		return true
	}
	if p.ds.dead {
		panic(pathDone{"recorded infeasible sub-run"})
	}
	return false
}

func (p *Path) takeReplay() Decision {
	d := p.ds.prefix[p.ds.pos]
	p.ds.pos++
	p.ds.log = append(p.ds.log, d)
	return d
}

func (p *Path) record(d Decision) {
	if p.ds.strict {
		panic(abort("engine: nondeterministic re-execution of a merged call"))
	}
	p.ds.log = append(p.ds.log, d)
	p.ds.pos++
}

func (p *Path) fork(d Decision) {
	alt := append(append([]Decision(nil), p.ds.log...), d)
	if p.ds.work != nil {
		*p.ds.work = append(*p.ds.work, alt)
		return
	}
	p.eng.push(alt)
}

func (p *Path) decisionBudget() {
	if p.ds.newDec >= p.eng.Cfg.MaxDecisions {
		panic(abort(fmt.Sprintf("unwind: more than %d symbolic decisions on one path", p.eng.Cfg.MaxDecisions)))
	}
	p.ds.newDec++
}

// Input is one symbolic input created by a zz* intrinsic, for replay vectors.
type Input struct {
	Name string // base name given by the harness
	Seq  int    // call index for that name
	Kind string // int|bool|byte
	Term *smt.T
}

type Config struct {
	Tier         int
	MaxSteps     int64
	MaxDecisions int
	MaxPaths     int
	Workers      int
	SolverBin    string
	TimeoutMS    int
	Seed         int64
	Verbose      bool
	Params       map[string]int64 // harness parameters (zzParam)
}

type Intercept func(fr *Frame, args []Value) (Value, bool)

// Violation is a failed obligation with its model.
type Violation struct {
	Label   string
	Pos     string
	Kind    string // assert | panic | deadlock
	Msg     string
	Vector  map[string][]interface{}
	Log     []Decision
	Harness string
}

type Incon struct {
	Reason string
	Count  int
}

// Engine holds the program and the exploration state of one harness run.
type Engine struct {
	Prog               *ssa.Program
	Cfg                Config
	intercepts         map[string]Intercept
	runtimeErrorString types.Type
	ModelPkg           *ssa.Package // internal/zzmodel

	mu          sync.Mutex
	work        [][]Decision
	active      int
	cond        *sync.Cond
	Paths       int
	Merged      int
	MergeStats  map[string][2]int
	Steps       int64
	Obligations int
	Discharged  int
	Trivial     int
	Violations  []Violation
	Incon       map[string]int
	Reached     map[string]int
	Witness     map[string]map[string][]interface{}
	Funcs       map[string]bool
	Uses        map[string]bool
	Queries     int
	SolverTime  time.Duration
	UnknownBr   int
	Samples     []string
	stop        bool
	Harness     string
}

func NewEngine(prog *ssa.Program, cfg Config) *Engine {
	e := &Engine{Prog: prog, Cfg: cfg, intercepts: map[string]Intercept{}}
	e.cond = sync.NewCond(&e.mu)
	if rt := prog.ImportedPackage("runtime"); rt != nil {
		e.runtimeErrorString = rt.Type("errorString").Object().Type()
	}
	registerModels(e)
	return e
}

func (e *Engine) resetRun() {
	e.work = nil
	e.active = 0
	e.Paths, e.Steps, e.Obligations, e.Discharged, e.Trivial, e.Merged = 0, 0, 0, 0, 0, 0
	e.Violations = nil
	e.Incon = map[string]int{}
	e.MergeStats = map[string][2]int{}
	e.Reached = map[string]int{}
	e.Witness = map[string]map[string][]interface{}{}
	e.Funcs = map[string]bool{}
	e.Uses = map[string]bool{}
	e.Queries, e.SolverTime, e.UnknownBr = 0, 0, 0
	e.Samples = nil
	e.stop = false
}

func (e *Engine) noteUse(s string) {
	e.mu.Lock()
	e.Uses[s] = true
	e.mu.Unlock()
}

func (e *Engine) noteFunc(fn *ssa.Function) {
	if fn.Pkg == nil && fn.Origin() == nil {
		return
	}
	pkg := fn.Pkg
	if pkg == nil && fn.Origin() != nil {
		pkg = fn.Origin().Pkg
	}
	if pkg == nil || !strings.HasPrefix(pkg.Pkg.Path(), "github.com/regclient/regclient") {
		return
	}
	name := fn.String()
	e.mu.Lock()
	e.Funcs[name] = true
	e.mu.Unlock()
}

func (e *Engine) incon(reason string) {
	e.mu.Lock()
	e.Incon[reason]++
	e.mu.Unlock()
}

func (e *Engine) lookupIntercept(fn *ssa.Function, name string) Intercept {
	if ic, ok := e.intercepts[name]; ok {
		return ic
	}
	if strings.HasPrefix(fn.Name(), "zz") {
		n := fn.Name()
		if o := fn.Origin(); o != nil {
			n = o.Name()
		}
		if ic, ok := e.intercepts["zz:"+n]; ok {
			return ic
		}
	}
	return nil
}

// Path is one execution along a decision log.
type Path struct {
	eng          *Engine
	ds           *dstream
	pc           []*smt.T
	asserted     int
	fresh        bool
	solver       *smt.Solver
	globals      map[*ssa.Global]*Value
	inited       map[*ssa.Package]bool
	symSeq       map[string]int
	inputs       []Input
	steps        int64
	depth        int
	redirects    map[string]Value
	inRedirect   map[string]bool
	ghost        map[string]interface{}
	hashApps     []*hashApp
	tasks        []*Task
	cur          *Task
	dead         bool
	endSignal    interface{}
	chanSeq      int
	eventSeq     int
	preempt      int
	turnSched    bool
	sigSched     bool
	turnBudget   int
	clockVirtual bool
	clock0       *smt.T
	clockHorizon *smt.T
	curFrame     *Frame
	memo         map[string]*memoEntry
	allVars      []*smt.T
	model        map[string]*big.Int
	summarize    map[string]bool
	inSummaryOf  map[string]bool
	unknown      bool
	clock        *smt.T
	trace        []string
}

func (p *Path) freshName(base string) (string, int) {
	n := p.symSeq[base]
	p.symSeq[base] = n + 1
	return fmt.Sprintf("%s!%d", base, n), n
}

func (p *Path) addPC(c *smt.T) {
	if v, ok := c.BoolVal(); ok && v {
		return
	}
	p.pc = append(p.pc, c)
	if p.model != nil && evalTerm(c, p.model).Sign() == 0 {
		p.model = nil
	}
}

// noteImplied keeps the cached model honest for a condition that the PC
// implies (nothing is added to the PC).
func (p *Path) noteImplied(c *smt.T) {
	if p.model != nil && evalTerm(c, p.model).Sign() == 0 {
		p.model = nil
	}
}

func (p *Path) regVar(t *smt.T) *smt.T {
	p.allVars = append(p.allVars, t)
	if p.model != nil {
		// extend the cached model: any in-range value will do, later
		// constraints are checked against it by addPC
		v := int64(0)
		if t.Sort == smt.Int && !t.LoInf {
			v = t.Lo
		}
		p.model[t.Name] = big.NewInt(v)
	}
	return t
}

// syncSolver makes the solver's assertion stack equal to the PC.
func (p *Path) syncSolver() {
	if !p.fresh {
		p.solver.Reset()
		p.fresh = true
		p.asserted = 0
	}
	for ; p.asserted < len(p.pc); p.asserted++ {
		p.solver.Assert(p.pc[p.asserted])
	}
}

func (p *Path) check(extra *smt.T, want []*smt.T) (smt.Result, map[string]*big.Int) {
	p.syncSolver()
	var ex []*smt.T
	if extra != nil {
		ex = []*smt.T{extra}
	}
	t0 := time.Now()
	r, m, err := p.solver.Check(ex, want)
	if smt.SlowMS > 0 && time.Since(t0) > time.Duration(smt.SlowMS)*time.Millisecond {
		fmt.Fprintf(os.Stderr, "slow query in %s\n", callChain(p.curFrame))
	}
	if err != nil {
		p.eng.incon("solver-error: " + err.Error())
		p.fresh = false
		return smt.Unknown, nil
	}
	return r, m
}

// Assume adds c to the path condition; an infeasible path ends silently.
func (p *Path) Assume(c *smt.T) {
	if v, ok := c.BoolVal(); ok {
		if !v {
			panic(pathDone{"assume false"})
		}
		return
	}
	p.addPC(c)
	if p.replaying() {
		p.takeReplay() // replaying: known feasible
		return
	}
	r, _ := p.check(nil, nil)
	if r == smt.Unsat {
		panic(pathDone{"assume infeasible"})
	}
	if r == smt.Unknown {
		p.unknown = true
	}
	p.record(Decision{Kind: 'a', Forced: true})
}

// Branch decides a symbolic condition, forking the exploration if both sides
// are feasible.
func (p *Path) Branch(c *smt.T) bool {
	if v, ok := c.BoolVal(); ok {
		return v
	}
	if p.replaying() {
		d := p.takeReplay()
		take := d.Val == 1
		if !d.Forced {
			if take {
				p.addPC(c)
			} else {
				p.addPC(smt.Not(c))
			}
		}
		return take
	}
	var rt, rf smt.Result
	if p.model != nil {
		// the cached model of the PC decides one side for free
		if evalTerm(c, p.model).Sign() != 0 {
			rt = smt.Sat
			rf, _ = p.check(smt.Not(c), nil)
		} else {
			rf = smt.Sat
			var m map[string]*big.Int
			rt, m = p.check(c, p.allVars)
			if rt == smt.Sat {
				p.model = m // we continue on the true side
			}
		}
	} else {
		var m map[string]*big.Int
		rt, m = p.check(c, p.allVars)
		if rt == smt.Unsat {
			rf = smt.Sat // PC is feasible, so the other side must be
		} else {
			rf, _ = p.check(smt.Not(c), nil)
			if rt == smt.Sat {
				p.model = m
			}
		}
	}
	if rt == smt.Unknown || rf == smt.Unknown {
		p.unknown = true
		p.eng.mu.Lock()
		p.eng.UnknownBr++
		p.eng.mu.Unlock()
	}
	switch {
	case rt == smt.Unsat && rf == smt.Unsat:
		panic(pathDone{"path condition infeasible"})
	case rt == smt.Unsat:
		p.record(Decision{Val: 0, Forced: true, Kind: 'b'})
		p.noteImplied(smt.Not(c))
		return false
	case rf == smt.Unsat:
		p.record(Decision{Val: 1, Forced: true, Kind: 'b'})
		p.noteImplied(c)
		return true
	}
	p.decisionBudget()
	p.fork(Decision{Val: 0, Kind: 'b'})
	p.record(Decision{Val: 1, Kind: 'b'})
	p.addPC(c)
	return true
}

// concInt returns a concrete value for t within [lo,hi], forking over all
// feasible values (concretise on demand).
func (p *Path) concInt(t *smt.T, lo, hi int64) int64 {
	if v, ok := t.Int64(); ok {
		return v
	}
	if p.replaying() {
		d := p.takeReplay()
		p.addPC(smt.Eq(t, smt.I(d.Val)))
		return d.Val
	}
	if !t.LoInf && t.Lo > lo {
		lo = t.Lo
	}
	if !t.HiInf && t.Hi < hi {
		hi = t.Hi
	}
	const cap = 300
	var vals []int64
	rng := smt.And(smt.Le(smt.I(lo), t), smt.Le(t, smt.I(hi)))
	excl := []*smt.T{rng}
	for len(vals) <= cap {
		r, m := p.check(smt.And(excl...), []*smt.T{t})
		if r == smt.Unknown {
			p.unknown = true
			panic(abort("solver unknown while concretising a value"))
		}
		if r == smt.Unsat {
			break
		}
		// t may be a compound term; evaluate via a defined name
		v := p.evalModel(t, m)
		vals = append(vals, v)
		excl = append(excl, smt.Ne(t, smt.I(v)))
	}
	if len(vals) > cap {
		panic(abort(fmt.Sprintf("concretise: more than %d feasible values for %s in [%d,%d] first=%v", cap, t, lo, hi, vals[:5])))
	}
	if len(vals) == 0 {
		// outside [lo,hi] only: the caller's range check should have caught it
		panic(pathDone{"no feasible value in range"})
	}
	sort.Slice(vals, func(i, j int) bool { return vals[i] < vals[j] })
	if len(vals) == 1 {
		p.record(Decision{Val: vals[0], Forced: true, Kind: 'v'})
		// the value is implied but later code wants the equality syntactically
		p.addPC(smt.Eq(t, smt.I(vals[0])))
		return vals[0]
	}
	p.decisionBudget()
	for _, v := range vals[1:] {
		p.fork(Decision{Val: v, Kind: 'v'})
	}
	p.record(Decision{Val: vals[0], Kind: 'v'})
	p.addPC(smt.Eq(t, smt.I(vals[0])))
	return vals[0]
}

func (p *Path) evalModel(t *smt.T, m map[string]*big.Int) int64 {
	// the solver was asked for the value of the printed expression of t; the
	// model map is keyed by that printed text for compound terms
	for _, v := range m {
		if len(m) == 1 {
			return v.Int64()
		}
	}
	if t.Op == smt.OVar {
		if v, ok := m[t.Name]; ok {
			return v.Int64()
		}
	}
	panic(abort("engine: cannot read model value"))
}

// Obligation checks that cond holds on this path.
func (p *Path) Obligation(fr *Frame, cond *smt.T, label, kind, msg string) {
	e := p.eng
	if v, ok := cond.BoolVal(); ok && v {
		e.mu.Lock()
		e.Obligations++
		e.Discharged++
		e.Trivial++
		e.mu.Unlock()
		return
	}
	var want []*smt.T
	for _, in := range p.inputs {
		if in.Term.Op == smt.OVar {
			want = append(want, in.Term)
		}
	}
	for _, h := range p.hashApps {
		want = append(want, h.id)
	}
	r, m := p.check(smt.Not(cond), want)
	e.mu.Lock()
	e.Obligations++
	switch r {
	case smt.Unsat:
		e.Discharged++
		if len(e.Samples) < 6 {
			s := cond.String()
			if len(s) > 300 {
				s = s[:300] + "..."
			}
			e.Samples = append(e.Samples, fmt.Sprintf("%s: unsat(pc[%d] and not %s)", label, len(p.pc), s))
		}
	case smt.Unknown:
		e.Incon["solver-unknown at obligation "+label]++
	case smt.Sat:
		v := Violation{Label: label, Kind: kind, Msg: msg, Vector: p.vectorFull(m), Log: append([]Decision(nil), p.ds.log...), Harness: e.Harness}
		if fr != nil {
			v.Pos = fr.posHere()
		}
		// keep one violation per label (the first), count the others
		dup := false
		for _, o := range e.Violations {
			if o.Label == label {
				dup = true
			}
		}
		if !dup {
			e.Violations = append(e.Violations, v)
		}
	}
	e.mu.Unlock()
	if r == smt.Sat {
		if v, ok := cond.BoolVal(); ok && !v {
			panic(pathDone{"assertion failed on every input of this path"})
		}
	}
	// continue under the assumption that the assertion held
	p.Assume(cond)
}

func (fr *Frame) posHere() string {
	for f := fr; f != nil; f = f.caller {
		if f.callpos.IsValid() {
			return f.p.eng.Prog.Fset.Position(f.callpos).String()
		}
	}
	return ""
}

// ---- globals and package initialisation ----

func (p *Path) global(g *ssa.Global) *Value {
	if c, ok := p.globals[g]; ok {
		return c
	}
	pkg := g.Pkg
	p.initPkg(pkg)
	if c, ok := p.globals[g]; ok {
		return c
	}
	c := new(Value)
	*c = zero(deref(g.Type()))
	p.globals[g] = c
	return c
}

// initPkg runs pkg's own initialiser lazily (imports are initialised when
// first touched themselves).
func (p *Path) initPkg(pkg *ssa.Package) {
	if pkg == nil || p.inited[pkg] {
		return
	}
	p.inited[pkg] = true
	for _, m := range pkg.Members {
		if g, ok := m.(*ssa.Global); ok {
			c := new(Value)
			*c = zero(deref(g.Type()))
			p.globals[g] = c
		}
	}
	if skipInit[pkg.Pkg.Path()] {
		return
	}
	init := pkg.Func("init")
	if init == nil || init.Blocks == nil {
		return
	}
	saved := p.steps
	p.callSSA(nil, 0, init, nil, nil)
	_ = saved
}

// packages whose init is replaced by models or is irrelevant and expensive
var skipInit = map[string]bool{
	"unicode":               true,
	"runtime":               true,
	"os":                    true,
	"syscall":               true,
	"reflect":               true,
	"internal/cpu":          true,
	"regexp/syntax":         true,
	"crypto/sha256":         true,
	"crypto/sha512":         true,
	"crypto":                true,
	"time":                  true,
	"net/http":              true,
	"net":                   true,
	"log/slog":              true,
	"log":                   true,
	"encoding/json":         true,
	"html/template":         true,
	"text/template":         true,
	"crypto/tls":            true,
	"crypto/x509":           true,
	"math/rand":             true,
	"mime":                  true,
	"golang.org/x/sys/unix": true,
}

// ---- exploration ----

func (e *Engine) push(prefix []Decision) {
	e.mu.Lock()
	e.work = append(e.work, prefix)
	e.cond.Signal()
	e.mu.Unlock()
}

// Run explores all paths of entry.
func (e *Engine) Run(entry *ssa.Function) {
	e.resetRun()
	e.Harness = entry.Name()
	e.work = [][]Decision{nil}
	var wg sync.WaitGroup
	for w := 0; w < e.Cfg.Workers; w++ {
		wg.Add(1)
		go func() {
			defer wg.Done()
			s, err := smt.NewSolver(e.Cfg.SolverBin, e.Cfg.TimeoutMS)
			if err != nil {
				e.incon("solver-start: " + err.Error())
				return
			}
			if d := os.Getenv("GOSYM_LOG"); d != "" {
				if f, err := os.CreateTemp(d, "solver-*.smt2"); err == nil {
					s.Log = f
					defer f.Close()
				}
			}
			defer func() {
				e.mu.Lock()
				e.Queries += s.Queries
				e.SolverTime += s.Time
				if s.Errors > 0 {
					e.Incon[fmt.Sprintf("solver-error-lines: %s", s.LastError)] += s.Errors
				}
				e.mu.Unlock()
				s.Close()
			}()
			for {
				e.mu.Lock()
				for len(e.work) == 0 && e.active > 0 && !e.stop {
					e.cond.Wait()
				}
				if e.stop || len(e.work) == 0 {
					e.cond.Broadcast()
					e.mu.Unlock()
					return
				}
				prefix := e.work[len(e.work)-1]
				e.work = e.work[:len(e.work)-1]
				e.active++
				e.Paths++
				if e.Paths > e.Cfg.MaxPaths {
					e.Incon[fmt.Sprintf("path budget %d exhausted", e.Cfg.MaxPaths)]++
					e.stop = true
				}
				e.mu.Unlock()
				p := e.newPath(prefix, s)
				p.run(entry)
				e.mu.Lock()
				e.active--
				e.Steps += p.steps
				e.cond.Broadcast()
				e.mu.Unlock()
			}
		}()
	}
	wg.Wait()
}

func (e *Engine) newPath(prefix []Decision, s *smt.Solver) *Path {
	return &Path{
		eng: e, ds: &dstream{prefix: prefix}, solver: s,
		globals:    map[*ssa.Global]*Value{},
		inited:     map[*ssa.Package]bool{},
		symSeq:     map[string]int{},
		redirects:  map[string]Value{},
		inRedirect: map[string]bool{},
		ghost:      map[string]interface{}{},
		summarize:  map[string]bool{},
	}
}

func (p *Path) run(entry *ssa.Function) {
	e := p.eng
	main := &Task{id: 0, wake: make(chan struct{}, 1)}
	p.tasks = []*Task{main}
	p.cur = main
	func() {
		defer func() {
			r := recover()
			if r == nil {
				return
			}
			p.endSignal = r
		}()
		fr := &Frame{p: p, task: main}
		p.callSSA(fr, 0, entry, nil, nil)
	}()
	p.killTasks()
	sig := p.endSignal
	switch s := sig.(type) {
	case nil:
		// normal completion
	case pathDone:
	case pathKilled:
	case deadlockSignal:
		func() {
			defer func() { recover() }()
			p.Obligation(nil, smt.False, "nodeadlock", "deadlock", s.msg)
		}()
	case abortSignal:
		e.incon(trim(s.reason, 300))
		if e.Cfg.Verbose {
			fmt.Printf("  abort: %s\n", s.reason)
		}
	case targetPanic:
		// an escaped Go panic is a failed implicit obligation
		msg := panicString(s.v)
		func() {
			defer func() {
				if r := recover(); r != nil {
					if _, ok := r.(pathDone); !ok {
						if a, ok := r.(abortSignal); ok {
							e.incon(a.reason)
						}
					}
				}
			}()
			p.Obligation(nil, smt.False, "nopanic", "panic", msg+" at "+s.pos)
		}()
	default:
		e.incon(fmt.Sprintf("engine-panic: %v", sig))
	}
	if p.unknown {
		e.incon("solver-unknown on a branch feasibility query (branch kept)")
	}
}

func trim(s string, n int) string {
	if len(s) > n {
		return s[:n] + "..."
	}
	return s
}

func panicString(v Value) string {
	if i, ok := v.(Iface); ok {
		if s, ok := i.V.(Str); ok {
			return s.Debug()
		}
		if i.T != nil {
			return "panic(" + i.T.String() + ")"
		}
	}
	return "panic"
}
