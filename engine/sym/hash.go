package sym

import (
	"crypto/sha256"
	"crypto/sha512"
	"encoding/base64"
	"encoding/hex"
	"fmt"
	"math/big"
	"os"
	"sync"

	"verif/gosym/smt"
)

// hashApp is one application of the uninterpreted, collision-free hash.
type hashApp struct {
	alg     string
	payload []Value // *smt.T bytes or *AtomByte
	id      *smt.T
}

func realDigest(alg string, b []byte) string {
	switch alg {
	case "sha256":
		s := sha256.Sum256(b)
		return alg + ":" + hex.EncodeToString(s[:])
	case "sha384":
		s := sha512.Sum384(b)
		return alg + ":" + hex.EncodeToString(s[:])
	case "sha512":
		s := sha512.Sum512(b)
		return alg + ":" + hex.EncodeToString(s[:])
	}
	panic(abort("unsupported: hash algorithm " + alg))
}

func payloadEq(a, b []Value) *smt.T {
	if len(a) != len(b) {
		return smt.False
	}
	var cs []*smt.T
	for i := range a {
		switch x := a[i].(type) {
		case *smt.T:
			y, ok := b[i].(*smt.T)
			if !ok {
				return smt.False
			}
			cs = append(cs, smt.Eq(x, y))
		case *AtomByte:
			y, ok := b[i].(*AtomByte)
			if !ok || x.Off != y.Off {
				return smt.False
			}
			if x.Off == 0 {
				cs = append(cs, atomEq(x.A, y.A))
			}
		}
	}
	return smt.And(cs...)
}

// hashDigest finalises a hash over payload and returns the digest string.
func (p *Path) hashDigest(alg string, payload []Value) Str {
	conc := make([]byte, 0, len(payload))
	allConc := true
	for _, v := range payload {
		t, ok := v.(*smt.T)
		if !ok {
			allConc = false
			break
		}
		c, ok := t.Int64()
		if !ok {
			allConc = false
			break
		}
		conc = append(conc, byte(c))
	}
	if allConc {
		dg := realDigest(alg, conc)
		rememberPreimage(dg, conc)
		return CStr(dg)
	}
	p.eng.noteUse("model: hash = uninterpreted function, functional and collision-free (Ackermann expansion per path)")
	// identical payload object hashed again: reuse
	for _, h := range p.hashApps {
		if h.alg == alg && payloadEq(h.payload, payload) == smt.True {
			return digestStrOf(alg, h.id, h.payload)
		}
	}
	n, _ := p.freshName("H_" + alg)
	id := p.regVar(smt.Var(n, smt.Int))
	app := &hashApp{alg: alg, payload: append([]Value(nil), payload...), id: id}
	for _, h := range p.hashApps {
		if h.alg != alg {
			continue
		}
		eq := payloadEq(h.payload, payload)
		p.addPC(smt.Eq(eq, smt.Eq(h.id, id)))
	}
	p.hashApps = append(p.hashApps, app)
	return digestStrOf(alg, id, app.payload)
}

// Digests computed over concrete bytes anywhere in the run, with their
// preimages: a hash of symbolic content equals such a constant exactly when the
// content equals the preimage (facts about the real hash function, valid on
// every path).
var (
	preMu     sync.Mutex
	preimages = map[string][]byte{}
)

func rememberPreimage(dg string, b []byte) {
	preMu.Lock()
	if _, ok := preimages[dg]; !ok {
		preimages[dg] = append([]byte(nil), b...)
	}
	preMu.Unlock()
}

func knownPreimage(alg, hexs string) ([]byte, bool) {
	preMu.Lock()
	b, ok := preimages[alg+":"+hexs]
	preMu.Unlock()
	return b, ok
}

func digestStrOf(alg string, id *smt.T, payload []Value) Str {
	var bl builder
	bl.addSeg(Seg{S: alg + ":"})
	bl.addSeg(Seg{A: &Atom{ID: id, Len: 2 * hashSize(alg), Kind: "hex", Info: alg, Hash: payload}})
	return bl.str()
}

// Eval evaluates an Int/Bool term under a model (missing variables = 0).
func evalTerm(t *smt.T, m map[string]*big.Int) *big.Int {
	return evalMemo(t, m, map[*smt.T]*big.Int{})
}

func evalMemo(t *smt.T, m map[string]*big.Int, memo map[*smt.T]*big.Int) *big.Int {
	if len(t.Args) > 0 {
		if v, ok := memo[t]; ok {
			return v
		}
		v := evalRaw(t, m, memo)
		memo[t] = v
		return v
	}
	return evalRaw(t, m, memo)
}

func evalRaw(t *smt.T, m map[string]*big.Int, memo map[*smt.T]*big.Int) *big.Int {
	switch t.Op {
	case smt.OConst:
		if t.Sort == smt.Bool {
			return big.NewInt(t.IV)
		}
		return t.BigVal()
	case smt.OVar:
		if v, ok := m[t.Name]; ok {
			return v
		}
		if t.Sort == smt.Int && !t.LoInf {
			return big.NewInt(t.Lo)
		}
		return big.NewInt(0)
	}
	a := make([]*big.Int, len(t.Args))
	for i, x := range t.Args {
		a[i] = evalMemo(x, m, memo)
	}
	b := func(v bool) *big.Int {
		if v {
			return big.NewInt(1)
		}
		return big.NewInt(0)
	}
	switch t.Op {
	case smt.ONot:
		return b(a[0].Sign() == 0)
	case smt.OAnd:
		for _, x := range a {
			if x.Sign() == 0 {
				return b(false)
			}
		}
		return b(true)
	case smt.OOr:
		for _, x := range a {
			if x.Sign() != 0 {
				return b(true)
			}
		}
		return b(false)
	case smt.OIte:
		if a[0].Sign() != 0 {
			return a[1]
		}
		return a[2]
	case smt.OEq:
		return b(a[0].Cmp(a[1]) == 0)
	case smt.OLt:
		return b(a[0].Cmp(a[1]) < 0)
	case smt.OLe:
		return b(a[0].Cmp(a[1]) <= 0)
	case smt.OAdd:
		return new(big.Int).Add(a[0], a[1])
	case smt.OSub:
		return new(big.Int).Sub(a[0], a[1])
	case smt.OMul:
		return new(big.Int).Mul(a[0], a[1])
	case smt.ONeg:
		return new(big.Int).Neg(a[0])
	case smt.ODiv:
		if a[1].Sign() == 0 {
			return big.NewInt(0)
		}
		q, _ := new(big.Int).DivMod(a[0], a[1], new(big.Int))
		return q
	case smt.OMod:
		if a[1].Sign() == 0 {
			return big.NewInt(0)
		}
		_, r := new(big.Int).DivMod(a[0], a[1], new(big.Int))
		return r
	}
	return big.NewInt(0)
}

// nativeBytes renders a payload (bytes, token bytes) the way the native twin
// will see it under model m.
func (p *Path) nativeBytes(payload []Value, m map[string]*big.Int, depth int) ([]byte, bool) {
	var out []byte
	for i := 0; i < len(payload); i++ {
		switch v := payload[i].(type) {
		case *smt.T:
			out = append(out, byte(evalTerm(v, m).Int64()))
		case *AtomByte:
			if v.Off != 0 {
				return nil, false
			}
			s, ok := p.nativeAtom(v.A, m, depth)
			if !ok {
				return nil, false
			}
			out = append(out, s...)
			i += v.A.Len - 1
		default:
			return nil, false
		}
	}
	return out, true
}

// nativeAtom is the native text of an opaque token under model m.
func (p *Path) nativeAtom(a *Atom, m map[string]*big.Int, depth int) (string, bool) {
	if depth > 6 {
		return "", false
	}
	switch a.Kind {
	case "hex":
		if a.ID.Op == smt.OApp {
			return "", false
		}
		d := p.nativeDigest(a.Info, a.ID, m, depth+1)
		return d[len(a.Info)+1:], true
	case "dec":
		return evalTerm(a.ID, m).String(), true
	case "b64":
		bs, ok := p.nativeBytes(a.Payload, m, depth+1)
		if !ok {
			return "", false
		}
		return base64.StdEncoding.EncodeToString(bs), true
	}
	return "", false
}

// nativeDigest is the digest string the native twin will hold for the token
// with identity id: the real digest of the matching hash application's bytes
// if the model equates them, else the digest zzDigest derives from the id.
func (p *Path) nativeDigest(alg string, id *smt.T, m map[string]*big.Int, depth int) string {
	idv := evalTerm(id, m)
	for _, h := range p.hashApps {
		if h.alg != alg || evalTerm(h.id, m).Cmp(idv) != 0 {
			continue
		}
		if bs, ok := p.nativeBytes(h.payload, m, depth); ok {
			if os.Getenv("GOSYM_DEBUGVEC") != "" {
				fmt.Fprintf(os.Stderr, "nativeDigest id=%s bytes=%q\n", idv, bs)
			}
			return realDigest(alg, bs)
		}
	}
	return realDigest(alg, []byte(fmt.Sprintf("zzatom-%d", idv.Int64())))
}

// vectorFull turns a model into a replay vector: name -> values in call
// order. Digest inputs are given as the digest string the native twin must
// use so that it follows the same path (real hashing there).
func (p *Path) vectorFull(m map[string]*big.Int) map[string][]interface{} {
	vec := map[string][]interface{}{}
	for _, in := range p.inputs {
		var v interface{}
		switch {
		case len(in.Kind) > 7 && in.Kind[:7] == "digest:":
			v = p.nativeDigest(in.Kind[7:], in.Term, m, 0)
		default:
			v = evalTerm(in.Term, m).Int64()
		}
		for len(vec[in.Name]) <= in.Seq {
			vec[in.Name] = append(vec[in.Name], 0)
		}
		vec[in.Name][in.Seq] = v
	}
	return vec
}

var _ = fmt.Sprint
