package sym

import (
	"fmt"
	"go/token"
	"go/types"

	"golang.org/x/tools/go/ssa"
	"verif/gosym/smt"
)

// Task is a cooperative goroutine of the interpreted program. Exactly one
// task runs at a time; control moves only at blocking operations (and at
// explicit zzYield points), so a path is a deterministic function of its
// decision log.
type Task struct {
	id    int
	wake  chan struct{}
	done  bool
	ready func() bool // nil = runnable
	name  string
}

type sendItem struct {
	v     Value
	taken bool
}

type chanState struct {
	pending     []*sendItem
	recvWaiting int
	readyAt     int // event stamp of the operation that made the channel receivable
}

// markReady stamps the moment c became receivable: a goroutine parked in a
// select is woken by the first operation that fires, and that case wins.
func (p *Path) markReady(c *Chan, wasReady bool) {
	if !wasReady {
		p.eventSeq++
		p.cs(c).readyAt = p.eventSeq
	}
}

func (p *Path) cs(c *Chan) *chanState {
	k := fmt.Sprintf("chan:%d", c.ID)
	if s, ok := p.ghost[k]; ok {
		return s.(*chanState)
	}
	s := &chanState{}
	p.ghost[k] = s
	return s
}

type deadlockSignal struct{ msg string }

// choice forks over n alternatives without consulting the solver.
func (p *Path) choice(n int) int {
	if n <= 1 {
		return 0
	}
	if p.replaying() {
		return int(p.takeReplay().Val)
	}
	p.decisionBudget()
	for i := 1; i < n; i++ {
		p.fork(Decision{Val: int64(i), Kind: 'c', Forced: true})
	}
	p.record(Decision{Val: 0, Kind: 'c', Forced: true})
	return 0
}

func (p *Path) runnable(except *Task) []*Task {
	var out []*Task
	for _, t := range p.tasks {
		if t == except || t.done {
			continue
		}
		if t.ready == nil || t.ready() {
			out = append(out, t)
		}
	}
	return out
}

// switchTo hands the baton to next and parks cur until it is woken again.
func (p *Path) switchTo(cur, next *Task) {
	p.cur = next
	next.wake <- struct{}{}
	<-cur.wake
	if p.dead {
		panic(pathKilled{})
	}
	p.cur = cur
}

// block parks the current task until ready() holds.
func (p *Path) block(ready func() bool, what string) {
	cur := p.cur
	for {
		if ready() {
			cur.ready = nil
			return
		}
		cur.ready = ready
		cands := p.runnable(cur)
		if len(cands) == 0 {
			panic(deadlockSignal{msg: "all goroutines are asleep: " + what})
		}
		i := 0
		if p.eng.Cfg.Params["sched_fork"] > 0 || p.turnSched {
			i = p.choice(len(cands))
		}
		p.switchTo(cur, cands[i])
	}
}

// yield optionally lets other runnable tasks go first (forking).
func (p *Path) yield() bool { return p.yieldWith(nil) }

// yieldWith is yield with a hook that runs when a switch was chosen, before
// control moves to the other task.
func (p *Path) yieldWith(onSwitch func()) bool {
	cur := p.cur
	cands := p.runnable(cur)
	if len(cands) == 0 {
		return false
	}
	i := p.choice(len(cands) + 1)
	if i == 0 {
		return false
	}
	if onSwitch != nil {
		onSwitch()
	}
	cur.ready = nil
	p.switchTo(cur, cands[i-1])
	return true
}

func (p *Path) spawn(fr *Frame, pos token.Pos, fn Value, args []Value) {
	t := &Task{id: len(p.tasks), wake: make(chan struct{}, 1)}
	p.tasks = append(p.tasks, t)
	p.eng.noteUse("tasks: cooperative goroutines, switches only at blocking operations")
	go func() {
		<-t.wake
		if p.dead {
			t.done = true
			return
		}
		defer func() {
			r := recover()
			t.done = true
			if r != nil {
				if _, ok := r.(pathKilled); ok {
					return
				}
				if p.endSignal == nil {
					p.endSignal = r
				}
				p.dead = true
				p.wakeMain()
				return
			}
			// normal exit: pass the baton on
			cands := p.runnable(t)
			if len(cands) == 0 {
				p.endSignal = deadlockSignal{msg: "goroutine exited and every other goroutine is blocked"}
				p.dead = true
				p.wakeMain()
				return
			}
			i := 0
			if (p.eng.Cfg.Params["sched_fork"] > 0 || p.turnSched) && len(cands) > 1 {
				func() {
					defer func() {
						if r := recover(); r != nil {
							p.endSignal = r
							p.dead = true
						}
					}()
					i = p.choice(len(cands))
				}()
				if p.dead {
					p.wakeMain()
					return
				}
			}
			p.cur = cands[i]
			cands[i].wake <- struct{}{}
		}()
		f := &Frame{p: p, task: t}
		p.call(f, pos, fn, args)
	}()
}

func (p *Path) wakeMain() {
	select {
	case p.tasks[0].wake <- struct{}{}:
	default:
	}
}

// killTasks releases every parked task goroutine at the end of a path.
func (p *Path) killTasks() {
	p.dead = true
	for _, t := range p.tasks[1:] {
		if !t.done {
			select {
			case t.wake <- struct{}{}:
			default:
			}
		}
	}
}

// ---- channel operations ----

func (p *Path) chanSend(fr *Frame, c *Chan, v Value) {
	if c == nil {
		p.block(func() bool { return false }, "send on nil channel")
	}
	if c.Closed {
		panic(targetPanic{v: Iface{T: p.eng.runtimeErrorString, V: CStr("send on closed channel")}})
	}
	was := p.recvReady(c)
	if len(c.Buf) < c.Cap {
		c.Buf = append(c.Buf, copyVal(v))
		p.markReady(c, was)
		return
	}
	st := p.cs(c)
	it := &sendItem{v: copyVal(v)}
	st.pending = append(st.pending, it)
	p.markReady(c, was)
	p.block(func() bool { return it.taken || c.Closed }, "chan send")
	if !it.taken && c.Closed {
		panic(targetPanic{v: Iface{T: p.eng.runtimeErrorString, V: CStr("send on closed channel")}})
	}
}

func (p *Path) recvReady(c *Chan) bool {
	if c == nil {
		return false
	}
	if len(c.Buf) > 0 || c.Closed {
		return true
	}
	for _, it := range p.cs(c).pending {
		if !it.taken {
			return true
		}
	}
	return false
}

func (p *Path) recvNow(c *Chan, elem types.Type) (Value, bool) {
	st := p.cs(c)
	if len(c.Buf) > 0 {
		v := c.Buf[0]
		c.Buf = c.Buf[1:]
		// move a pending sender into the buffer
		for _, it := range st.pending {
			if !it.taken && len(c.Buf) < c.Cap {
				it.taken = true
				c.Buf = append(c.Buf, it.v)
			}
		}
		st.compact()
		return v, true
	}
	for _, it := range st.pending {
		if !it.taken {
			it.taken = true
			st.compact()
			return it.v, true
		}
	}
	if c.Closed {
		return zero(elem), false
	}
	panic("recvNow: not ready")
}

func (s *chanState) compact() {
	out := s.pending[:0]
	for _, it := range s.pending {
		if !it.taken {
			out = append(out, it)
		}
	}
	s.pending = out
}

func (p *Path) chanRecv(fr *Frame, c *Chan, elem types.Type) (Value, bool) {
	if c == nil {
		p.block(func() bool { return false }, "receive from nil channel")
	}
	if !p.recvReady(c) {
		st := p.cs(c)
		st.recvWaiting++
		p.block(func() bool { return p.recvReady(c) }, "chan receive")
		st.recvWaiting--
	}
	return p.recvNow(c, elem)
}

func (p *Path) chanClose(fr *Frame, c *Chan) {
	if c == nil {
		panic(targetPanic{v: Iface{T: p.eng.runtimeErrorString, V: CStr("close of nil channel")}})
	}
	if c.Closed {
		panic(targetPanic{v: Iface{T: p.eng.runtimeErrorString, V: CStr("close of closed channel")}})
	}
	was := p.recvReady(c)
	c.Closed = true
	p.markReady(c, was)
}

func (p *Path) sendReady(c *Chan) bool {
	if c == nil {
		return false
	}
	if c.Closed {
		return true // will panic
	}
	return len(c.Buf) < c.Cap || p.cs(c).recvWaiting > 0
}

func (p *Path) selectStmt(fr *Frame, instr *ssa.Select) Value {
	ready := func() []int {
		var r []int
		for i, st := range instr.States {
			c, _ := fr.get(st.Chan).(*Chan)
			if st.Dir == types.RecvOnly {
				if p.recvReady(c) {
					r = append(r, i)
				}
			} else if p.sendReady(c) {
				r = append(r, i)
			}
		}
		return r
	}
	rs := ready()
	chosen := -1
	parked := false
	if len(rs) == 0 {
		if instr.Blocking {
			parked = true
			// count as waiting receiver on every recv case
			for _, st := range instr.States {
				if c, _ := fr.get(st.Chan).(*Chan); c != nil && st.Dir == types.RecvOnly {
					p.cs(c).recvWaiting++
				}
			}
			p.block(func() bool { return len(ready()) > 0 }, "select")
			for _, st := range instr.States {
				if c, _ := fr.get(st.Chan).(*Chan); c != nil && st.Dir == types.RecvOnly {
					p.cs(c).recvWaiting--
				}
			}
			rs = ready()
		}
	}
	if len(rs) > 0 && parked {
		// the case that fired first wins (send cases: any)
		best := -1
		for _, i := range rs {
			st := instr.States[i]
			if st.Dir != types.RecvOnly {
				continue
			}
			c := fr.get(st.Chan).(*Chan)
			if best < 0 || p.cs(c).readyAt < p.cs(fr.get(instr.States[best].Chan).(*Chan)).readyAt {
				best = i
			}
		}
		if best >= 0 {
			chosen = best
		} else {
			chosen = rs[p.choice(len(rs))]
		}
	} else if len(rs) > 0 {
		chosen = rs[p.choice(len(rs))]
	}
	r := Tuple{smt.I(int64(chosen)), smt.False}
	for i, st := range instr.States {
		if st.Dir == types.RecvOnly {
			elem := st.Chan.Type().Underlying().(*types.Chan).Elem()
			if i == chosen {
				v, ok := p.recvNow(fr.get(st.Chan).(*Chan), elem)
				r[1] = smt.B(ok)
				r = append(r, v)
			} else {
				r = append(r, zero(elem))
			}
		} else if i == chosen {
			c := fr.get(st.Chan).(*Chan)
			if c.Closed {
				panic(targetPanic{v: Iface{T: p.eng.runtimeErrorString, V: CStr("send on closed channel")}})
			}
			v := copyVal(fr.get(st.Send))
			if len(c.Buf) < c.Cap {
				c.Buf = append(c.Buf, v)
			} else {
				it := &sendItem{v: v}
				p.cs(c).pending = append(p.cs(c).pending, it)
			}
		}
	}
	return r
}
