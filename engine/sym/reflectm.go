package sym

import (
	"go/types"

	"verif/gosym/smt"
)

// Minimal reflect model: ValueOf / TypeOf / New / Elem / Interface / Set /
// IsValid / CanSet / Kind on values whose Go types are known from go/types.
// A reflect.Value is the real struct type with an engine object in its first
// field; a reflect.Type is an interface value whose dynamic type is the real
// *reflect.rtype with an engine object as its value.

type rvData struct {
	v    Value
	t    types.Type
	addr *Value // non-nil when the value is addressable (obtained through Elem of a pointer)
}

func (e *Engine) mkRV(d *rvData) Value {
	z := zero(e.namedType("reflect", "Value")).(Struct)
	z[0] = newCell(&Opaque{Kind: "rv", X: d})
	return z
}

func rvOf(v Value) *rvData {
	s := v.(Struct)
	c, ok := s[0].(*Value)
	if !ok || c == nil {
		return nil
	}
	o, ok := (*c).(*Opaque)
	if !ok {
		return nil
	}
	return o.X.(*rvData)
}

func (e *Engine) mkRType(t types.Type) Value {
	return Iface{T: e.ptrTo("reflect", "rtype"), V: newCell(&Opaque{Kind: "rtype", X: t})}
}

func rtypeOf(v Value) types.Type {
	c := v.(*Value)
	return (*c).(*Opaque).X.(types.Type)
}

// kindOf mirrors reflect.Kind numbering.
func kindOf(t types.Type) int64 {
	switch u := t.Underlying().(type) {
	case *types.Basic:
		switch u.Kind() {
		case types.Bool:
			return 1
		case types.Int:
			return 2
		case types.Int8:
			return 3
		case types.Int16:
			return 4
		case types.Int32:
			return 5
		case types.Int64:
			return 6
		case types.Uint:
			return 7
		case types.Uint8:
			return 8
		case types.Uint16:
			return 9
		case types.Uint32:
			return 10
		case types.Uint64:
			return 11
		case types.Uintptr:
			return 12
		case types.Float32:
			return 13
		case types.Float64:
			return 14
		case types.String:
			return 24
		case types.UnsafePointer:
			return 26
		}
	case *types.Array:
		return 17
	case *types.Chan:
		return 18
	case *types.Signature:
		return 19
	case *types.Interface:
		return 20
	case *types.Map:
		return 21
	case *types.Pointer:
		return 22
	case *types.Slice:
		return 23
	case *types.Struct:
		return 25
	}
	return 0
}

func registerReflect(e *Engine) {
	e.on("reflect.ValueOf", func(fr *Frame, a []Value) Value {
		it := a[0].(Iface)
		fr.p.eng.noteUse("model: minimal reflect (ValueOf/TypeOf/New/Elem/Interface/Set/Kind) on go/types information")
		if it.T == nil {
			return zero(e.namedType("reflect", "Value"))
		}
		return e.mkRV(&rvData{v: it.V, t: it.T})
	})
	e.on("reflect.TypeOf", func(fr *Frame, a []Value) Value {
		it := a[0].(Iface)
		if it.T == nil {
			return Iface{}
		}
		return e.mkRType(it.T)
	})
	e.on("reflect.New", func(fr *Frame, a []Value) Value {
		t := rtypeOf(a[0].(Iface).V)
		return e.mkRV(&rvData{v: newCell(zero(t)), t: types.NewPointer(t)})
	})
	e.on("(reflect.Value).IsValid", func(fr *Frame, a []Value) Value { return smt.B(rvOf(a[0]) != nil) })
	need := func(a []Value, what string) *rvData {
		d := rvOf(a[0])
		if d == nil {
			panic(targetPanic{v: Iface{T: types.Typ[types.String], V: CStr("reflect: call of " + what + " on zero Value")}})
		}
		return d
	}
	e.on("(reflect.Value).Type", func(fr *Frame, a []Value) Value { return e.mkRType(need(a, "Type").t) })
	e.on("(reflect.Value).Kind", func(fr *Frame, a []Value) Value {
		d := rvOf(a[0])
		if d == nil {
			return smt.I(0)
		}
		return smt.I(kindOf(d.t))
	})
	e.on("(reflect.Value).Elem", func(fr *Frame, a []Value) Value {
		d := need(a, "Elem")
		switch u := d.t.Underlying().(type) {
		case *types.Pointer:
			c := d.v.(*Value)
			if c == nil {
				return zero(e.namedType("reflect", "Value"))
			}
			return e.mkRV(&rvData{v: *c, t: u.Elem(), addr: c})
		case *types.Interface:
			it := d.v.(Iface)
			if it.T == nil {
				return zero(e.namedType("reflect", "Value"))
			}
			return e.mkRV(&rvData{v: it.V, t: it.T})
		}
		panic(abort("unsupported: reflect.Value.Elem on " + d.t.String()))
	})
	e.on("(reflect.Value).Interface", func(fr *Frame, a []Value) Value {
		d := need(a, "Interface")
		if _, ok := d.t.Underlying().(*types.Interface); ok {
			return d.v
		}
		v := d.v
		if d.addr != nil {
			v = *d.addr
		}
		return Iface{T: d.t, V: copyVal(v)}
	})
	e.on("(reflect.Value).CanSet", func(fr *Frame, a []Value) Value {
		d := rvOf(a[0])
		return smt.B(d != nil && d.addr != nil)
	})
	e.on("(reflect.Value).CanAddr", func(fr *Frame, a []Value) Value {
		d := rvOf(a[0])
		return smt.B(d != nil && d.addr != nil)
	})
	e.on("(reflect.Value).IsNil", func(fr *Frame, a []Value) Value {
		d := need(a, "IsNil")
		switch v := d.v.(type) {
		case *Value:
			return smt.B(v == nil)
		case Iface:
			return smt.B(v.T == nil)
		case []Value:
			return smt.B(v == nil)
		case *Map:
			return smt.B(v == nil)
		}
		return smt.False
	})
	e.on("(reflect.Value).Set", func(fr *Frame, a []Value) Value {
		d := need(a, "Set")
		x := rvOf(a[1])
		if d.addr == nil || x == nil {
			panic(targetPanic{v: Iface{T: types.Typ[types.String], V: CStr("reflect: Set using unaddressable or zero value")}})
		}
		v := x.v
		if x.addr != nil {
			v = *x.addr
		}
		if _, ok := d.t.Underlying().(*types.Interface); ok {
			if _, isI := x.t.Underlying().(*types.Interface); !isI {
				v = Iface{T: x.t, V: copyVal(v)}
			}
		}
		store(d.addr, copyVal(v))
		return nil
	})
	e.on("(*reflect.rtype).Kind", func(fr *Frame, a []Value) Value { return smt.I(kindOf(rtypeOf(a[0]))) })
	e.on("(*reflect.rtype).String", func(fr *Frame, a []Value) Value { return CStr(rtypeOf(a[0]).String()) })
	e.on("(*reflect.rtype).Name", func(fr *Frame, a []Value) Value {
		if n, ok := rtypeOf(a[0]).(*types.Named); ok {
			return CStr(n.Obj().Name())
		}
		return Str{}
	})
	e.on("(*reflect.rtype).Elem", func(fr *Frame, a []Value) Value {
		switch u := rtypeOf(a[0]).Underlying().(type) {
		case *types.Pointer:
			return e.mkRType(u.Elem())
		case *types.Slice:
			return e.mkRType(u.Elem())
		case *types.Array:
			return e.mkRType(u.Elem())
		case *types.Map:
			return e.mkRType(u.Elem())
		}
		panic(abort("unsupported: reflect.Type.Elem"))
	})
}
