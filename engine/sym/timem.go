package sym

import (
	"verif/gosym/smt"
)

// Symbolic clock: time.Now returns a Time whose wall field is 0 and whose ext
// field (seconds since year 1) is a fresh symbolic integer that never
// decreases. Resolution is therefore one second; durations are multiples of
// time.Second.
func (p *Path) now() *smt.T {
	n, _ := p.freshName("clock")
	t := p.regVar(smt.VarRange(n, 1<<33, 1<<34))
	p.addPC(smt.InRange(t, 1<<33, 1<<34))
	if p.clock != nil {
		p.addPC(smt.Le(p.clock, t))
	}
	p.clock = t
	return t
}

func registerTime(e *Engine) {
	e.on("time.Now", func(fr *Frame, a []Value) Value {
		fr.p.eng.noteUse("model: symbolic non-decreasing clock with one-second resolution")
		z := zero(e.namedType("time", "Time")).(Struct)
		z[1] = fr.p.now()
		return z
	})
	e.on("time.Sleep", func(fr *Frame, a []Value) Value {
		// advance the clock by at least the duration (rounded up to seconds)
		p := fr.p
		d := a[0].(*smt.T)
		if p.clock == nil {
			p.now()
		}
		prev := p.clock
		t := p.now()
		p.addPC(smt.Le(smt.Add(smt.Mul(prev, smt.I(1000000000)), d), smt.Mul(t, smt.I(1000000000))))
		if rec, ok := p.ghost["sleeps"]; ok {
			*(rec.(*[]Value)) = append(*(rec.(*[]Value)), d)
		}
		return nil
	})
}
