package sym

import (
	"time"

	"verif/gosym/smt"
)

// Symbolic clock. A time.Time is modelled as {wall: 0, ext: nanoseconds, loc}
// where ext is a symbolic integer (the real representation keeps seconds in
// ext; every method that looks inside a Time is intercepted here, so the two
// never meet). time.Now returns a fresh instant that is not earlier than the
// previous one; time.Sleep and timers advance the clock by at least the
// duration. The zero Time has ext == 0; real instants are > 0.

const clockLo, clockHi = int64(1) << 60, int64(1) << 61

func (p *Path) now() *smt.T {
	if p.clockVirtual && p.clock != nil {
		return p.clock
	}
	n, _ := p.freshName("clock")
	t := p.regVar(smt.VarRange(n, clockLo, clockHi))
	p.addPC(smt.InRange(t, clockLo, clockHi))
	if p.clock != nil {
		p.addPC(smt.Le(p.clock, t))
	}
	if p.clock0 == nil {
		p.clock0 = t
	} else if p.clockHorizon != nil {
		p.addPC(smt.Le(t, smt.Add(p.clock0, p.clockHorizon)))
	}
	p.clock = t
	return t
}

func timeExt(v Value) *smt.T { return v.(Struct)[1].(*smt.T) }

func registerTime(e *Engine) {
	mk := func(ext *smt.T) Value {
		z := zero(e.namedType("time", "Time")).(Struct)
		z[1] = ext
		return z
	}
	e.on("time.Now", func(fr *Frame, a []Value) Value {
		fr.p.eng.noteUse("model: symbolic non-decreasing clock (nanoseconds); time.Time methods are evaluated on it")
		return mk(fr.p.now())
	})
	advance := func(p *Path, d *smt.T) {
		if p.clock == nil {
			p.now()
		}
		prev := p.clock
		if rec, ok := p.ghost["sleeps"]; ok && p.clockVirtual {
			*(rec.(*[]Value)) = append(*(rec.(*[]Value)), d)
		}
		if p.clockVirtual {
			// virtual time: waiting takes exactly as long as asked (never backwards)
			p.clock = smt.Ite(smt.Lt(d, smt.I(0)), prev, smt.Add(prev, d))
			return
		}
		t := p.now()
		p.addPC(smt.Le(smt.Add(prev, d), t))
		if rec, ok := p.ghost["sleeps"]; ok {
			*(rec.(*[]Value)) = append(*(rec.(*[]Value)), d)
		}
	}
	e.on("time.Sleep", func(fr *Frame, a []Value) Value {
		advance(fr.p, a[0].(*smt.T))
		return nil
	})
	e.on("(time.Time).Add", func(fr *Frame, a []Value) Value {
		return mk(smt.Add(timeExt(a[0]), a[1].(*smt.T)))
	})
	e.on("(time.Time).Sub", func(fr *Frame, a []Value) Value {
		return smt.Sub(timeExt(a[0]), timeExt(a[1]))
	})
	e.on("(time.Time).Before", func(fr *Frame, a []Value) Value { return smt.Lt(timeExt(a[0]), timeExt(a[1])) })
	e.on("(time.Time).After", func(fr *Frame, a []Value) Value { return smt.Lt(timeExt(a[1]), timeExt(a[0])) })
	e.on("(time.Time).Equal", func(fr *Frame, a []Value) Value { return smt.Eq(timeExt(a[0]), timeExt(a[1])) })
	e.on("(time.Time).Compare", func(fr *Frame, a []Value) Value {
		x, y := timeExt(a[0]), timeExt(a[1])
		return smt.Ite(smt.Lt(x, y), smt.I(-1), smt.Ite(smt.Lt(y, x), smt.I(1), smt.I(0)))
	})
	e.on("(time.Time).IsZero", func(fr *Frame, a []Value) Value { return smt.Eq(timeExt(a[0]), smt.I(0)) })
	e.on("(time.Time).Unix", func(fr *Frame, a []Value) Value { return smt.Div(timeExt(a[0]), smt.I(1000000000)) })
	e.on("(time.Time).UnixNano", func(fr *Frame, a []Value) Value { return timeExt(a[0]) })
	e.on("(time.Time).UTC", func(fr *Frame, a []Value) Value { return a[0] })
	e.on("(time.Time).Local", func(fr *Frame, a []Value) Value { return a[0] })
	e.on("(time.Time).Round", func(fr *Frame, a []Value) Value { return a[0] })
	e.on("(time.Time).Truncate", func(fr *Frame, a []Value) Value { return a[0] })
	// textual forms of a symbolic instant are opaque tokens carrying the instant
	stamp := func(fr *Frame, v Value) Str {
		ext := timeExt(v)
		if c, ok := ext.Int64(); ok && c == 0 {
			return CStr("0001-01-01T00:00:00Z")
		}
		fr.p.eng.noteUse("model: the textual form of a symbolic time is an opaque token")
		return AtomStr(&Atom{ID: ext, Len: 20, Kind: "tok", Info: "time"})
	}
	e.on("(time.Time).String", func(fr *Frame, a []Value) Value { return stamp(fr, a[0]) })
	e.on("(time.Time).Format", func(fr *Frame, a []Value) Value { return stamp(fr, a[0]) })
	e.on("(time.Time).MarshalText", func(fr *Frame, a []Value) Value {
		return Tuple{stamp(fr, a[0]).toBytes(), Iface{}}
	})
	e.on("(time.Time).MarshalJSON", func(fr *Frame, a []Value) Value {
		return Tuple{strConcat(strConcat(CStr("\""), stamp(fr, a[0])), CStr("\"")).toBytes(), Iface{}}
	})
	e.on("(*time.Time).UnmarshalJSON", func(fr *Frame, a []Value) Value {
		s := bytesToStr(a[1].([]Value))
		cell := a[0].(*Value)
		if s.N >= 2 {
			inner := s.Slice(1, s.N-1)
			if len(inner.Segs) == 1 && inner.Segs[0].A != nil && inner.Segs[0].A.Info == "time" {
				store(cell, mk(inner.Segs[0].A.ID))
				return Iface{}
			}
			if c, ok := inner.Concrete(); ok && c == "0001-01-01T00:00:00Z" {
				store(cell, mk(smt.I(0)))
				return Iface{}
			}
			if _, ok := inner.Concrete(); ok {
				// a concrete timestamp: some instant in the past
				store(cell, mk(smt.I(clockLo)))
				return Iface{}
			}
		}
		return fr.p.mkError(CStr("parsing time: unsupported symbolic text"))
	})
	e.on("time.Since", func(fr *Frame, a []Value) Value { return smt.Sub(fr.p.now(), timeExt(a[0])) })
	e.on("time.Until", func(fr *Frame, a []Value) Value { return smt.Sub(timeExt(a[0]), fr.p.now()) })
	// ParseDuration on concrete text: the real function (package time's unit table is not initialised in the interpreter)
	e.on("time.ParseDuration", func(fr *Frame, a []Value) Value {
		txt, ok := a[0].(Str).Concrete()
		if !ok {
			panic(abort("unsupported: time.ParseDuration of symbolic text"))
		}
		d, err := time.ParseDuration(txt)
		if err != nil {
			return Tuple{smt.I(0), fr.p.mkError(CStr(err.Error()))}
		}
		return Tuple{smt.I(int64(d)), Iface{}}
	})
	e.on("time.Unix", func(fr *Frame, a []Value) Value {
		return mk(smt.Add(smt.Mul(a[0].(*smt.T), smt.I(1000000000)), a[1].(*smt.T)))
	})
	// timers: After/NewTimer hand back a channel that is already ready; the
	// wait is accounted for by advancing the clock at creation
	after := func(fr *Frame, d *smt.T) *Chan {
		advance(fr.p, d)
		fr.p.chanSeq++
		c := &Chan{Cap: 1, ID: fr.p.chanSeq}
		c.Buf = append(c.Buf, mk(fr.p.clock))
		fr.p.markReady(c, false)
		return c
	}
	e.on("time.After", func(fr *Frame, a []Value) Value { return after(fr, a[0].(*smt.T)) })
	e.on("time.NewTimer", func(fr *Frame, a []Value) Value {
		z := zero(e.namedType("time", "Timer")).(Struct)
		z[0] = after(fr, a[0].(*smt.T))
		return newCell(z)
	})
	// AfterFunc: the callback is never run (a timer that has not fired yet)
	e.on("time.AfterFunc", func(fr *Frame, a []Value) Value {
		e.noteUse("model: time.AfterFunc callbacks never fire within the run")
		z := zero(e.namedType("time", "Timer")).(Struct)
		return newCell(z)
	})
	e.on("(*time.Timer).Stop", func(fr *Frame, a []Value) Value { return smt.False })
	e.on("(*time.Timer).Reset", func(fr *Frame, a []Value) Value { return smt.False })
}
