package sym

import (
	"fmt"
	"os"

	"verif/gosym/smt"
)

var usePushPop = os.Getenv("GOSYM_PUSHPOP") != ""

// outcome of one run of a merged call.
type outcome struct {
	cond *smt.T
	vals []Value // result followed by the post-state of tracked cells
}

// subExplore runs body on every feasible path (forking locally instead of
// globally) and returns the outcomes. body must be pure apart from the cells
// in tracked, which are restored before every run. The explored sub-logs are
// recorded in the main decision stream so that a re-execution of this path
// replays them without solver queries.
func (p *Path) subExplore(tracked []*Value, body func() Value) []outcome {
	snap := make([]Value, len(tracked))
	for i, c := range tracked {
		snap[i] = copyVal(*c)
	}
	outer := p.ds
	pcLen := len(p.pc)
	runOne := func(ds *dstream) (out outcome, ok bool) {
		for i, c := range tracked {
			*c = copyVal(snap[i])
		}
		p.ds = ds
		depth := -1
		if usePushPop {
			p.syncSolver()
			depth = p.solver.Depth()
			p.solver.Push()
		}
		defer func() {
			p.ds = outer
			if depth >= 0 && p.fresh && p.solver.Depth() == depth+1 {
				p.solver.Pop()
				if p.asserted > pcLen {
					p.asserted = pcLen
				}
			} else if p.asserted > pcLen {
				p.fresh = false
			}
			if r := recover(); r != nil {
				if _, isDone := r.(pathDone); isDone {
					// infeasible sub-path: drop it
					p.pc = p.pc[:pcLen]
					ok = false
					return
				}
				if tp, isTP := r.(targetPanic); isTP {
					panic(abort("unsupported: panic inside a merged call: " + panicString(tp.v) + " at " + tp.pos))
				}
				panic(r)
			}
		}()
		res := body()
		out.cond = smt.And(append([]*smt.T(nil), p.pc[pcLen:]...)...)
		out.vals = append(out.vals, copyVal(res))
		for _, c := range tracked {
			out.vals = append(out.vals, copyVal(*c))
		}
		p.pc = p.pc[:pcLen]
		return out, true
	}
	var outs []outcome
	noRecord := false
	if outer.pos < len(outer.prefix) && outer.prefix[outer.pos].Kind != 'm' {
		// the recorded run answered this call from the memo table: explore
		// afresh and leave the log alone
		noRecord = true
	}
	if outer.pos < len(outer.prefix) && !noRecord {
		d := outer.prefix[outer.pos]
		outer.pos++
		outer.log = append(outer.log, d)
		for _, sub := range d.Sub {
			ds := &dstream{prefix: sub, strict: true}
			if n := len(sub); n > 0 && sub[n-1].Kind == 'x' {
				ds.prefix, ds.dead = sub[:n-1], true
			}
			if o, ok := runOne(ds); ok {
				outs = append(outs, o)
			}
		}
		return outs
	}
	work := [][]Decision{nil}
	var subs [][]Decision
	for len(work) > 0 {
		pre := work[len(work)-1]
		work = work[:len(work)-1]
		ds := &dstream{prefix: pre, work: &work}
		if o, ok := runOne(ds); ok {
			outs = append(outs, o)
			subs = append(subs, ds.log)
		} else {
			// keep the infeasible run too: it may have filled the memo table
			subs = append(subs, append(append([]Decision(nil), ds.log...), Decision{Kind: 'x', Forced: true}))
		}
		if len(outs) > 5000 {
			panic(abort("merge: more than 5000 outcomes in one merged call"))
		}
	}
	if noRecord {
		return outs
	}
	if outer.strict || outer.dead {
		return outs
	}
	outer.log = append(outer.log, Decision{Kind: 'm', Sub: subs, Forced: true})
	outer.pos++
	return outs
}

// mergeOutcomes combines per-path values into one value (ite / Fin).
func (p *Path) mergeOutcomes(outs []outcome, k int) Value {
	if len(outs) == 0 {
		panic(pathDone{"merged call has no feasible path"})
	}
	conds := make([]*smt.T, len(outs))
	vals := make([]Value, len(outs))
	for i, o := range outs {
		conds[i] = o.cond
		vals[i] = o.vals[k]
	}
	return mergeVals(conds, vals)
}

func mergeVals(conds []*smt.T, vals []Value) Value {
	if len(vals) == 1 {
		return vals[0]
	}
	switch v0 := vals[0].(type) {
	case nil:
		return nil
	case *smt.T:
		// group identical terms
		res := vals[len(vals)-1].(*smt.T)
		for i := len(vals) - 2; i >= 0; i-- {
			res = smt.Ite(conds[i], vals[i].(*smt.T), res)
		}
		return res
	case Str:
		return mergeStrs(conds, vals)
	case Struct:
		out := make(Struct, len(v0))
		for f := range v0 {
			fv := make([]Value, len(vals))
			for i := range vals {
				fv[i] = vals[i].(Struct)[f]
			}
			out[f] = mergeVals(conds, fv)
		}
		return out
	case Array:
		out := make(Array, len(v0))
		for f := range v0 {
			fv := make([]Value, len(vals))
			for i := range vals {
				fv[i] = vals[i].(Array)[f]
			}
			out[f] = mergeVals(conds, fv)
		}
		return out
	case Tuple:
		out := make(Tuple, len(v0))
		for f := range v0 {
			fv := make([]Value, len(vals))
			for i := range vals {
				fv[i] = vals[i].(Tuple)[f]
			}
			out[f] = mergeVals(conds, fv)
		}
		return out
	case []Value:
		for _, v := range vals {
			s := v.([]Value)
			if len(s) != len(v0) {
				panic(abort("merge: slices of different length"))
			}
		}
		if v0 == nil {
			return v0
		}
		out := make([]Value, len(v0))
		for f := range v0 {
			fv := make([]Value, len(vals))
			for i := range vals {
				fv[i] = vals[i].([]Value)[f]
			}
			out[f] = mergeVals(conds, fv)
		}
		return out
	case Iface:
		for _, v := range vals {
			it := v.(Iface)
			if (it.T == nil) != (v0.T == nil) {
				panic(abort("merge: interface values differ in nil-ness (errors cannot be merged)"))
			}
		}
		if v0.T == nil {
			return v0
		}
		fv := make([]Value, len(vals))
		for i := range vals {
			fv[i] = vals[i].(Iface).V
		}
		same := true
		for i := range fv {
			if fv[i] != fv[0] {
				same = false
			}
		}
		if same {
			return v0
		}
		panic(abort("merge: different non-nil interface values"))
	case *Value:
		for _, v := range vals {
			if v.(*Value) != v0 {
				panic(abort("merge: different pointers"))
			}
		}
		return v0
	case *Map:
		for _, v := range vals {
			if v.(*Map) != v0 {
				panic(abort("merge: different maps"))
			}
		}
		return v0
	case float64:
		for _, v := range vals {
			if v.(float64) != v0 {
				panic(abort("merge: different floats"))
			}
		}
		return v0
	}
	panic(abort(fmt.Sprintf("merge: unsupported value kind %T", vals[0])))
}

func mergeStrs(conds []*smt.T, vals []Value) Value {
	type alt struct {
		cond *smt.T
		s    string
	}
	var alts []alt
	for i, v := range vals {
		s := v.(Str)
		if s.Fin != nil {
			for k, c := range s.Fin.Choices {
				alts = append(alts, alt{smt.And(conds[i], smt.Eq(s.Fin.Idx, smt.I(int64(k)))), c})
			}
			continue
		}
		c, ok := s.Concrete()
		if !ok {
			// identical symbolic ropes can be kept
			same := true
			for _, w := range vals {
				if strEq(w.(Str), s) != smt.True {
					same = false
				}
			}
			if same {
				return s
			}
			panic(abort("merge: symbolic (non finite-domain) strings differ across paths"))
		}
		alts = append(alts, alt{conds[i], c})
	}
	var choices []string
	idxOf := map[string]int{}
	byChoice := map[int][]*smt.T{}
	for _, a := range alts {
		k, ok := idxOf[a.s]
		if !ok {
			k = len(choices)
			idxOf[a.s] = k
			choices = append(choices, a.s)
		}
		byChoice[k] = append(byChoice[k], a.cond)
	}
	if len(choices) == 1 {
		return CStr(choices[0])
	}
	idx := smt.I(int64(len(choices) - 1))
	for k := len(choices) - 2; k >= 0; k-- {
		idx = smt.Ite(smt.Or(byChoice[k]...), smt.I(int64(k)), idx)
	}
	return Str{Fin: &Fin{Choices: choices, Idx: idx}}
}

// mergedCall runs fn(args) as a merged call: pointer arguments' pointees are
// tracked (restored per run, merged afterwards).
type memoEntry struct {
	pcLen int
	last  *smt.T
	res   Value
	post  []Value
}

// valKey renders the identity of a value built from scalars (term identity,
// not structure); ok=false when the value cannot serve as a memo key.
func valKey(v Value, depth int) (string, bool) {
	if depth > 4 {
		return "", false
	}
	switch v := v.(type) {
	case nil:
		return "nil", true
	case *smt.T:
		if c, ok := v.Int64(); ok {
			return fmt.Sprintf("i%d", c), true
		}
		return fmt.Sprintf("t%d", v.ID), true
	case Str:
		if c, ok := v.Concrete(); ok {
			return fmt.Sprintf("%q", c), true
		}
		if v.Fin != nil {
			return fmt.Sprintf("f%d%q", v.Fin.Idx.ID, v.Fin.Choices), true
		}
		return "", false
	case Struct:
		out := "{"
		for _, f := range v {
			k, ok := valKey(f, depth+1)
			if !ok {
				return "", false
			}
			out += k + ","
		}
		return out + "}", true
	case []Value:
		if v == nil {
			return "nilslice", true
		}
		return "", false
	case *Value:
		if v == nil {
			return "nilptr", true
		}
		k, ok := valKey(*v, depth+1)
		return "&" + k, ok
	case Iface:
		if v.T == nil {
			return "niliface", true
		}
		k, ok := valKey(v.V, depth+1)
		return "I(" + v.T.String() + ")" + k, ok
	}
	return "", false
}

func (p *Path) memoValid(e *memoEntry) bool {
	if len(p.pc) < e.pcLen {
		return false
	}
	return e.pcLen == 0 || p.pc[e.pcLen-1] == e.last
}

func (p *Path) mergedCall(fr *Frame, fn Value, args []Value) Value {
	key, keyOK := "", false
	if f, isFn := fn.(interface{ String() string }); isFn && len(args) > 0 {
		key = f.String()
		keyOK = true
		for _, a := range args {
			k, ok := valKey(a, 0)
			if !ok {
				keyOK = false
				break
			}
			key += "|" + k
		}
	}
	if keyOK {
		if e, ok := p.memo[key]; ok && p.memoValid(e) {
			if p.ds.pos < len(p.ds.prefix) && p.ds.prefix[p.ds.pos].Kind == 'm' {
				p.takeReplay() // the recorded exploration of this call is not needed
			}
			i := 0
			for _, a := range args {
				if c, ok := a.(*Value); ok && c != nil {
					switch (*c).(type) {
					case Struct, Array, *smt.T, Str:
						store(c, copyVal(e.post[i]))
						i++
					}
				}
			}
			return copyVal(e.res)
		}
	}
	if res, ok := p.liftFinite(fr, fn, args); ok {
		if keyOK {
			e := &memoEntry{pcLen: len(p.pc), res: copyVal(res)}
			if e.pcLen > 0 {
				e.last = p.pc[e.pcLen-1]
			}
			if p.memo == nil {
				p.memo = map[string]*memoEntry{}
			}
			p.memo[key] = e
		}
		return res
	}
	var tracked []*Value
	for _, a := range args {
		if c, ok := a.(*Value); ok && c != nil {
			switch (*c).(type) {
			case Struct, Array, *smt.T, Str:
				tracked = append(tracked, c)
			}
		}
	}
	q0 := p.solver.Queries
	defer func() {
		if p.eng.Cfg.Verbose {
			name := "closure"
			if f, ok := fn.(interface{ String() string }); ok {
				name = f.String()
			}
			p.eng.mu.Lock()
			st := p.eng.MergeStats[name]
			st[0]++
			st[1] += p.solver.Queries - q0
			p.eng.MergeStats[name] = st
			p.eng.mu.Unlock()
		}
	}()
	outs := p.subExplore(tracked, func() Value {
		return p.call(fr, 0, fn, append([]Value(nil), args...))
	})
	res := p.mergeOutcomes(outs, 0)
	for i, c := range tracked {
		store(c, p.mergeOutcomes(outs, 1+i))
	}
	p.eng.mu.Lock()
	p.eng.Merged += len(outs)
	p.eng.mu.Unlock()
	if keyOK {
		e := &memoEntry{pcLen: len(p.pc), res: copyVal(res)}
		if e.pcLen > 0 {
			e.last = p.pc[e.pcLen-1]
		}
		for _, c := range tracked {
			e.post = append(e.post, copyVal(*c))
		}
		if p.memo == nil {
			p.memo = map[string]*memoEntry{}
		}
		p.memo[key] = e
	}
	return res
}

// liftFinite handles a merged call whose arguments are all strings that are
// concrete or finite-domain: the function is run once per combination of
// choices (concretely, no solver involved) and the results are merged on the
// index terms. Combinations the path condition excludes only add dead
// branches to the merged value.
func (p *Path) liftFinite(fr *Frame, fn Value, args []Value) (Value, bool) {
	if len(args) == 0 {
		return nil, false
	}
	var fins []*Fin
	seen := map[*smt.T]int{}
	which := make([]int, len(args))
	combos := 1
	for i, a := range args {
		s, ok := a.(Str)
		if !ok {
			return nil, false
		}
		which[i] = -1
		if s.Fin == nil {
			if _, c := s.Concrete(); !c {
				return nil, false
			}
			continue
		}
		if j, dup := seen[s.Fin.Idx]; dup {
			if len(fins[j].Choices) != len(s.Fin.Choices) {
				return nil, false
			}
			which[i] = j
			continue
		}
		seen[s.Fin.Idx] = len(fins)
		which[i] = len(fins)
		fins = append(fins, s.Fin)
		combos *= len(s.Fin.Choices)
		if combos > 400 {
			return nil, false
		}
	}
	if len(fins) == 0 {
		return nil, false
	}
	var conds []*smt.T
	var vals []Value
	pick := make([]int, len(fins))
	saved := p.ds
	defer func() { p.ds = saved }()
	for {
		cargs := make([]Value, len(args))
		for i, a := range args {
			if which[i] < 0 {
				cargs[i] = a
			} else {
				cargs[i] = CStr(a.(Str).Fin.Choices[pick[which[i]]])
			}
		}
		var cs []*smt.T
		for j, f := range fins {
			cs = append(cs, smt.Eq(f.Idx, smt.I(int64(pick[j]))))
		}
		// a concrete run must not make symbolic decisions
		p.ds = &dstream{strict: true}
		func() {
			defer func() {
				if r := recover(); r != nil {
					if tp, isTP := r.(targetPanic); isTP {
						panic(abort("unsupported: panic inside a lifted call: " + panicString(tp.v)))
					}
					panic(r)
				}
			}()
			vals = append(vals, copyVal(p.call(fr, 0, fn, cargs)))
		}()
		conds = append(conds, smt.And(cs...))
		// next combination
		k := 0
		for ; k < len(fins); k++ {
			pick[k]++
			if pick[k] < len(fins[k].Choices) {
				break
			}
			pick[k] = 0
		}
		if k == len(fins) {
			break
		}
	}
	p.eng.noteUse("merge: calls whose arguments are finite-domain strings are evaluated per combination of choices and merged on the index terms")
	return mergeVals(conds, vals), true
}
