package sym

import (
	"verif/gosym/smt"
)

// reMatch returns a Bool term for re.MatchString(s).
func (p *Path) reMatch(re *reModel, s Str) *smt.T {
	s = p.conc(s)
	if c, ok := s.Concrete(); ok {
		return smt.B(re.re.MatchString(c))
	}
	// a lone hex/dec/tok atom: evaluate on a representative
	if len(s.Segs) > 0 && s.HasAtom() {
		rep, ok := atomRepresentative(s)
		if ok {
			p.eng.noteUse("model: regexp on opaque tokens evaluated on a representative of the token's format")
			return smt.B(re.re.MatchString(rep))
		}
		panic(abort("unsupported: regexp match on mixed opaque token string"))
	}
	return p.nfaMatch(re, s)
}

// atomRepresentative renders a rope containing atoms (and no symbolic bytes)
// with each atom replaced by a representative of its format.
func atomRepresentative(s Str) (string, bool) {
	out := ""
	for _, g := range s.Segs {
		switch {
		case g.B != nil:
			return "", false
		case g.A != nil:
			switch g.A.Kind {
			case "hex":
				for i := 0; i < g.A.Len; i++ {
					out += "a"
				}
			case "dec":
				out += "7"
			case "tok":
				for i := 0; i < g.A.Len; i++ {
					out += "k"
				}
			default:
				return "", false
			}
		default:
			out += g.S
		}
	}
	return out, true
}

func (p *Path) reSubmatch(re *reModel, s Str) Value {
	s = p.conc(s)
	if c, ok := s.Concrete(); ok {
		m := re.re.FindStringSubmatch(c)
		if m == nil {
			return []Value(nil)
		}
		out := make([]Value, len(m))
		for i, g := range m {
			out[i] = CStr(g)
		}
		return out
	}
	if s.HasAtom() {
		// match on the representative, then map group extents back onto the rope
		rep, ok := atomRepresentative(s)
		if !ok || len(rep) != s.N {
			panic(abort("unsupported: FindStringSubmatch on opaque token string"))
		}
		loc := re.re.FindStringSubmatchIndex(rep)
		if loc == nil {
			return []Value(nil)
		}
		p.eng.noteUse("model: regexp on opaque tokens evaluated on a representative of the token's format")
		out := make([]Value, len(loc)/2)
		for i := range out {
			if loc[2*i] < 0 {
				out[i] = Str{}
			} else {
				out[i] = s.Slice(loc[2*i], loc[2*i+1])
			}
		}
		return out
	}
	return p.nfaSubmatch(re, s)
}

func (p *Path) reReplaceAll(re *reModel, s, repl Str) Value {
	s = p.conc(s)
	repl = p.conc(repl)
	if c, ok := s.Concrete(); ok {
		if r, ok := repl.Concrete(); ok {
			return CStr(re.re.ReplaceAllString(c, r))
		}
	}
	return p.nfaReplaceAll(re, s, repl)
}
