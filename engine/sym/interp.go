package sym

import (
	"fmt"
	"go/token"
	"go/types"
	"slices"
	"strings"

	"golang.org/x/tools/go/ssa"
	"verif/gosym/smt"
)

// control-flow signals (Go panics inside the engine)

// abortSignal ends a path as inconclusive.
type abortSignal struct{ reason string }

func abort(reason string) abortSignal { return abortSignal{reason} }

// pathDone ends a path silently (infeasible assumption, harness exit).
type pathDone struct{ why string }

// pathKilled unwinds secondary tasks when the path is over.
type pathKilled struct{}

// targetPanic is a Go-level panic of the interpreted program.
type targetPanic struct {
	v   Value // an interface value
	pos string
}

type deferred struct {
	fn    Value
	args  []Value
	instr *ssa.Defer
	tail  *deferred
}

type Frame struct {
	p         *Path
	caller    *Frame
	fn        *ssa.Function
	block     *ssa.BasicBlock
	prevBlock *ssa.BasicBlock
	env       map[ssa.Value]Value
	locals    []Value
	defers    *deferred
	result    Value
	panicking bool
	panic     interface{}
	phitemps  []Value
	task      *Task
	callpos   token.Pos
}

func (fr *Frame) get(key ssa.Value) Value {
	switch key := key.(type) {
	case nil:
		return nil
	case *ssa.Function, *ssa.Builtin:
		return key
	case *ssa.Const:
		return constValue(key)
	case *ssa.Global:
		return fr.p.global(key)
	}
	if r, ok := fr.env[key]; ok {
		return r
	}
	panic(fmt.Sprintf("get: no value for %T: %v in %s", key, key.Name(), fr.fn))
}

func (fr *Frame) pos(i ssa.Instruction) string {
	if i == nil || !i.Pos().IsValid() {
		// walk to the caller's position
		if fr.callpos.IsValid() {
			return fr.p.eng.Prog.Fset.Position(fr.callpos).String()
		}
		return fr.fn.String()
	}
	return fr.p.eng.Prog.Fset.Position(i.Pos()).String()
}

func (fr *Frame) runDefer(d *deferred) {
	var ok bool
	defer func() {
		if !ok {
			r := recover()
			switch r.(type) {
			case abortSignal, pathDone, pathKilled, deadlockSignal:
				panic(r)
			}
			fr.panicking = true
			fr.panic = r
		}
	}()
	fr.p.call(fr, d.instr.Pos(), d.fn, d.args)
	ok = true
}

func (fr *Frame) runDefers() {
	for d := fr.defers; d != nil; d = d.tail {
		fr.runDefer(d)
	}
	fr.defers = nil
	if fr.panicking {
		panic(fr.panic)
	}
}

func (p *Path) lookupMethod(typ types.Type, meth *types.Func) *ssa.Function {
	return p.eng.Prog.LookupMethod(typ, meth.Pkg(), meth.Name())
}

const (
	kNext = iota
	kReturn
	kJump
)

func (p *Path) rtPanic(fr *Frame, instr ssa.Instruction, msg string) {
	panic(targetPanic{v: Iface{T: p.eng.runtimeErrorString, V: CStr("runtime error: " + msg)}, pos: fr.pos(instr)})
}

func visitInstr(fr *Frame, instr ssa.Instruction) int {
	p := fr.p
	switch instr := instr.(type) {
	case *ssa.DebugRef:
	case *ssa.UnOp:
		fr.env[instr] = p.unop(fr, instr, fr.get(instr.X))
	case *ssa.BinOp:
		fr.env[instr] = p.binop(fr, instr, instr.Op, instr.X.Type(), fr.get(instr.X), fr.get(instr.Y))
	case *ssa.Call:
		fn, args := p.prepareCall(fr, instr, &instr.Call)
		fr.env[instr] = p.call(fr, instr.Pos(), fn, args)
	case *ssa.ChangeInterface:
		fr.env[instr] = fr.get(instr.X)
	case *ssa.ChangeType:
		fr.env[instr] = fr.get(instr.X)
	case *ssa.Convert:
		fr.env[instr] = p.conv(fr, instr, instr.Type(), instr.X.Type(), fr.get(instr.X))
	case *ssa.SliceToArrayPointer:
		panic(abort("unsupported: SliceToArrayPointer"))
	case *ssa.MultiConvert:
		panic(abort("unsupported: MultiConvert"))
	case *ssa.MakeInterface:
		fr.env[instr] = Iface{T: instr.X.Type(), V: fr.get(instr.X)}
	case *ssa.Extract:
		fr.env[instr] = fr.get(instr.Tuple).(Tuple)[instr.Index]
	case *ssa.Slice:
		fr.env[instr] = p.slice(fr, instr, fr.get(instr.X), fr.get(instr.Low), fr.get(instr.High), fr.get(instr.Max))
	case *ssa.Return:
		switch len(instr.Results) {
		case 0:
		case 1:
			fr.result = fr.get(instr.Results[0])
		default:
			res := make(Tuple, 0, len(instr.Results))
			for _, r := range instr.Results {
				res = append(res, fr.get(r))
			}
			fr.result = res
		}
		fr.block = nil
		return kReturn
	case *ssa.RunDefers:
		fr.runDefers()
	case *ssa.Panic:
		panic(targetPanic{v: fr.get(instr.X), pos: fr.pos(instr)})
	case *ssa.Send:
		p.chanSend(fr, fr.get(instr.Chan).(*Chan), fr.get(instr.X))
	case *ssa.Store:
		addr := fr.get(instr.Addr).(*Value)
		if addr == nil {
			p.rtPanic(fr, instr, "invalid memory address or nil pointer dereference")
		}
		store(addr, fr.get(instr.Val))
	case *ssa.If:
		succ := 1
		if p.Branch(fr.get(instr.Cond).(*smt.T)) {
			succ = 0
		}
		fr.prevBlock, fr.block = fr.block, fr.block.Succs[succ]
		return kJump
	case *ssa.Jump:
		fr.prevBlock, fr.block = fr.block, fr.block.Succs[0]
		return kJump
	case *ssa.Defer:
		fn, args := p.prepareCall(fr, instr, &instr.Call)
		defers := &fr.defers
		if instr.DeferStack != nil {
			if into := fr.get(instr.DeferStack); into != nil {
				defers = into.(**deferred)
			}
		}
		*defers = &deferred{fn: fn, args: args, instr: instr, tail: *defers}
	case *ssa.Go:
		fn, args := p.prepareCall(fr, instr, &instr.Call)
		p.spawn(fr, instr.Pos(), fn, args)
	case *ssa.MakeChan:
		n := p.concInt(fr.get(instr.Size).(*smt.T), 0, 1<<16)
		p.chanSeq++
		fr.env[instr] = &Chan{Cap: int(n), ID: p.chanSeq}
	case *ssa.Alloc:
		var addr *Value
		if instr.Heap {
			addr = new(Value)
			fr.env[instr] = addr
		} else {
			addr = fr.env[instr].(*Value)
		}
		*addr = zero(deref(instr.Type()))
	case *ssa.MakeSlice:
		c := p.concInt(fr.get(instr.Cap).(*smt.T), 0, 1<<24)
		l := p.concInt(fr.get(instr.Len).(*smt.T), 0, c)
		if c > 1<<22 {
			panic(abort("unsupported: MakeSlice larger than 4Mi elements"))
		}
		s := make([]Value, c)
		tElt := instr.Type().Underlying().(*types.Slice).Elem()
		z := zero(tElt)
		_, agg := z.(Struct)
		_, agg2 := z.(Array)
		for i := range s {
			if agg || agg2 {
				s[i] = zero(tElt)
			} else {
				s[i] = z
			}
		}
		fr.env[instr] = s[:l]
	case *ssa.MakeMap:
		fr.env[instr] = &Map{KT: instr.Type().Underlying().(*types.Map).Key()}
	case *ssa.Range:
		fr.env[instr] = p.rangeIter(fr, fr.get(instr.X), instr.X.Type())
	case *ssa.Next:
		fr.env[instr] = fr.get(instr.Iter).(iter).next()
	case *ssa.FieldAddr:
		x := fr.get(instr.X).(*Value)
		if x == nil {
			p.rtPanic(fr, instr, "invalid memory address or nil pointer dereference")
		}
		fr.env[instr] = &(*x).(Struct)[instr.Field]
	case *ssa.Field:
		fr.env[instr] = fr.get(instr.X).(Struct)[instr.Field]
	case *ssa.IndexAddr:
		x := fr.get(instr.X)
		switch x := x.(type) {
		case []Value:
			i := p.index(fr, instr, fr.get(instr.Index).(*smt.T), len(x))
			fr.env[instr] = &x[i]
		case *Value:
			if x == nil {
				p.rtPanic(fr, instr, "invalid memory address or nil pointer dereference")
			}
			a := (*x).(Array)
			i := p.index(fr, instr, fr.get(instr.Index).(*smt.T), len(a))
			fr.env[instr] = &a[i]
		default:
			panic(fmt.Sprintf("unexpected x type in IndexAddr: %T", x))
		}
	case *ssa.Index:
		x := fr.get(instr.X)
		switch x := x.(type) {
		case Array:
			i := p.index(fr, instr, fr.get(instr.Index).(*smt.T), len(x))
			fr.env[instr] = copyVal(x[i])
		case Str:
			x = p.conc(x)
			i := p.index(fr, instr, fr.get(instr.Index).(*smt.T), x.N)
			fr.env[instr] = x.At(i)
		default:
			panic(fmt.Sprintf("unexpected x type in Index: %T", x))
		}
	case *ssa.Lookup:
		fr.env[instr] = p.lookup(fr, instr, fr.get(instr.X), fr.get(instr.Index))
	case *ssa.MapUpdate:
		m := fr.get(instr.Map).(*Map)
		if m == nil {
			p.rtPanic(fr, instr, "assignment to entry in nil map")
		}
		p.mapUpdate(m, fr.get(instr.Key), copyVal(fr.get(instr.Value)))
	case *ssa.TypeAssert:
		fr.env[instr] = p.typeAssert(fr, instr, fr.get(instr.X).(Iface))
	case *ssa.MakeClosure:
		var bindings []Value
		for _, b := range instr.Bindings {
			bindings = append(bindings, fr.get(b))
		}
		fr.env[instr] = &Closure{Fn: instr.Fn.(*ssa.Function), Env: bindings}
	case *ssa.Phi:
		panic("unreachable")
	case *ssa.Select:
		fr.env[instr] = p.selectStmt(fr, instr)
	default:
		panic(abort(fmt.Sprintf("unsupported: instruction %T", instr)))
	}
	return kNext
}

func deref(t types.Type) types.Type {
	if p, ok := t.Underlying().(*types.Pointer); ok {
		return p.Elem()
	}
	panic("deref of non-pointer " + t.String())
}

func (p *Path) prepareCall(fr *Frame, site ssa.Instruction, call *ssa.CallCommon) (fn Value, args []Value) {
	v := fr.get(call.Value)
	if call.Method == nil {
		fn = v
	} else {
		recv := v.(Iface)
		if recv.T == nil {
			p.rtPanic(fr, site, "invalid memory address or nil pointer dereference (method "+call.Method.Name()+" on nil interface)")
		}
		f := p.lookupMethod(recv.T, call.Method)
		if f == nil {
			panic(fmt.Sprintf("method set for dynamic type %v does not contain %s", recv.T, call.Method))
		}
		fn = f
		args = append(args, recv.V)
	}
	for _, arg := range call.Args {
		args = append(args, copyVal(fr.get(arg)))
	}
	return
}

func (p *Path) call(caller *Frame, callpos token.Pos, fn Value, args []Value) Value {
	switch fn := fn.(type) {
	case *ssa.Function:
		if fn == nil {
			panic(targetPanic{v: Iface{T: p.eng.runtimeErrorString, V: CStr("runtime error: call of nil function")}, pos: p.eng.Prog.Fset.Position(callpos).String()})
		}
		return p.callSSA(caller, callpos, fn, args, nil)
	case *Closure:
		return p.callSSA(caller, callpos, fn.Fn, args, fn.Env)
	case *ssa.Builtin:
		return p.callBuiltin(caller, callpos, fn, args)
	case *Native:
		fr := &Frame{p: p, caller: caller, callpos: callpos}
		if caller != nil {
			fr.task = caller.task
		}
		return fn.Fn(fr, args)
	}
	panic(fmt.Sprintf("cannot call %T", fn))
}

func (p *Path) callSSA(caller *Frame, callpos token.Pos, fn *ssa.Function, args []Value, env []Value) Value {
	fr := &Frame{p: p, caller: caller, fn: fn, callpos: callpos}
	if caller != nil {
		fr.task = caller.task
	}
	p.depth++
	defer func() { p.depth-- }()
	if p.depth > 400 {
		panic(abort("unsupported: call depth > 400 in " + fn.String()))
	}
	if caller != nil && fn.Synthetic == "package initializer" {
		return nil // imports are initialised lazily, when first touched
	}
	if fn.Parent() == nil {
		name := fn.String()
		if origin := fn.Origin(); origin != nil {
			name = origin.String()
		}
		if len(p.redirects) > 0 {
			if r, ok := p.redirects[name]; ok && !p.inRedirect[name] {
				p.inRedirect[name] = true
				defer func() { p.inRedirect[name] = false }()
				p.eng.noteUse("redirect:" + name)
				return p.call(caller, callpos, r, args)
			}
		}
		if len(p.summarize) > 0 && p.summarize[name] && !p.inSummaryOf[name] {
			if p.inSummaryOf == nil {
				p.inSummaryOf = map[string]bool{}
			}
			p.inSummaryOf[name] = true
			defer func() { p.inSummaryOf[name] = false }()
			return p.mergedCall(caller, fn, args)
		}
		if ic := p.eng.lookupIntercept(fn, name); ic != nil {
			if res, handled := ic(fr, args); handled {
				return res
			}
		}
		if fn.Blocks == nil {
			panic(abort("unsupported: no body for " + name + " called from " + callChain(caller)))
		}
	}
	if fn.TypeParams().Len() > 0 && len(fn.TypeArgs()) == 0 {
		panic(abort("unsupported: uninstantiated generic " + fn.String()))
	}
	p.eng.noteFunc(fn)
	prevFr := p.curFrame
	p.curFrame = fr
	defer func() { p.curFrame = prevFr }()
	fr.env = make(map[ssa.Value]Value, 16)
	fr.block = fn.Blocks[0]
	fr.locals = make([]Value, len(fn.Locals))
	for i, l := range fn.Locals {
		fr.locals[i] = zero(deref(l.Type()))
		fr.env[l] = &fr.locals[i]
	}
	for i, prm := range fn.Params {
		fr.env[prm] = args[i]
	}
	for i, fv := range fn.FreeVars {
		fr.env[fv] = env[i]
	}
	for fr.block != nil {
		runFrame(fr)
	}
	return fr.result
}

func runFrame(fr *Frame) {
	defer func() {
		if fr.block == nil {
			return
		}
		r := recover()
		switch r.(type) {
		case abortSignal, pathDone, pathKilled, deadlockSignal:
			panic(r)
		case targetPanic:
		default:
			// engine bug or Go runtime error inside the engine: convert to an abort with location
			panic(abort(fmt.Sprintf("engine: %v in %s [%s] called from %s", r, fr.fn, shortStack(), callChain(fr.caller))))
		}
		fr.panicking = true
		fr.panic = r
		fr.runDefers()
		fr.block = fr.fn.Recover
		if fr.block == nil {
			// recovered, no named results: return zero values
			fr.result = zeroResults(fr.fn)
		}
	}()
	p := fr.p
	for {
		nonPhis := executePhis(fr)
		for _, instr := range nonPhis {
			p.steps++
			if p.steps > p.eng.Cfg.MaxSteps {
				panic(abort(fmt.Sprintf("unwind: step budget %d exhausted in %s", p.eng.Cfg.MaxSteps, fr.fn)))
			}
			if visitInstr(fr, instr) == kReturn {
				return
			}
		}
	}
}

func zeroResults(fn *ssa.Function) Value {
	res := fn.Signature.Results()
	switch res.Len() {
	case 0:
		return nil
	case 1:
		return zero(res.At(0).Type())
	}
	t := make(Tuple, res.Len())
	for i := range t {
		t[i] = zero(res.At(i).Type())
	}
	return t
}

func executePhis(fr *Frame) []ssa.Instruction {
	firstNonPhi := -1
	for i, instr := range fr.block.Instrs {
		if _, ok := instr.(*ssa.Phi); !ok {
			firstNonPhi = i
			break
		}
	}
	nonPhis := fr.block.Instrs[firstNonPhi:]
	if firstNonPhi > 0 {
		phis := fr.block.Instrs[:firstNonPhi]
		predIndex := slices.Index(fr.block.Preds, fr.prevBlock)
		fr.phitemps = fr.phitemps[:0]
		for _, phi := range phis {
			phi := phi.(*ssa.Phi)
			fr.phitemps = append(fr.phitemps, fr.get(phi.Edges[predIndex]))
		}
		for i, phi := range phis {
			fr.env[phi.(*ssa.Phi)] = fr.phitemps[i]
		}
	}
	return nonPhis
}

func doRecover(caller *Frame) Value {
	if caller != nil && !caller.panicking && caller.caller != nil && caller.caller.panicking {
		caller.caller.panicking = false
		pv := caller.caller.panic
		caller.caller.panic = nil
		switch pv := pv.(type) {
		case targetPanic:
			return pv.v
		default:
			panic(fmt.Sprintf("unexpected panic type %T in recover()", pv))
		}
	}
	return Iface{}
}

func shortStack() string {
	// a compact Go stack of the engine itself for diagnostics
	var sb strings.Builder
	pcs := make([]uintptr, 12)
	n := runtimeCallers(4, pcs)
	for _, f := range framesOf(pcs[:n]) {
		if strings.Contains(f, "runtime.") {
			continue
		}
		sb.WriteString(f)
		sb.WriteString(" < ")
	}
	return sb.String()
}

func callChain(fr *Frame) string {
	var names []string
	for f := fr; f != nil && len(names) < 8; f = f.caller {
		if f.fn != nil {
			names = append(names, f.fn.String())
		}
	}
	return strings.Join(names, " < ")
}
