package sym

import (
	"path"
	"path/filepath"
	"strings"
)

// Lexical path functions on ropes that contain opaque tokens (and no symbolic
// bytes): tokens of kind hex/dec/tok/b64 cannot contain '/' or '.', so each is
// replaced by a run of a private placeholder byte, the real function is
// applied, and the placeholders are mapped back. Ropes with symbolic bytes are
// left to the real SSA of the function (which forks on the byte tests).

type atomEnc struct {
	atoms []*Atom
}

func (e *atomEnc) enc(s Str) (string, bool) {
	var b strings.Builder
	for _, g := range s.Segs {
		switch {
		case g.B != nil:
			return "", false
		case g.A != nil:
			if g.A.Kind == "b64" {
				return "", false // may contain '/'
			}
			id := -1
			for i, a := range e.atoms {
				if a == g.A {
					id = i
				}
			}
			if id < 0 {
				id = len(e.atoms)
				e.atoms = append(e.atoms, g.A)
			}
			if id > 20 {
				return "", false
			}
			for i := 0; i < g.A.Len; i++ {
				b.WriteByte(byte(1 + id))
			}
		default:
			for i := 0; i < len(g.S); i++ {
				if g.S[i] >= 1 && g.S[i] <= 21 {
					return "", false
				}
			}
			b.WriteString(g.S)
		}
	}
	return b.String(), true
}

func (e *atomEnc) dec(s string) (Str, bool) {
	var bl builder
	for i := 0; i < len(s); {
		c := s[i]
		if c >= 1 && int(c) <= len(e.atoms) {
			a := e.atoms[c-1]
			for j := 0; j < a.Len; j++ {
				if i+j >= len(s) || s[i+j] != c {
					return Str{}, false // torn token
				}
			}
			bl.addSeg(Seg{A: a})
			i += a.Len
			continue
		}
		j := i
		for j < len(s) && !(s[j] >= 1 && int(s[j]) <= len(e.atoms)) {
			j++
		}
		bl.addSeg(Seg{S: s[i:j]})
		i = j
	}
	return bl.str(), true
}

func registerPath(e *Engine) {
	unary := func(name string, f func(string) string) {
		e.onMaybe(name, func(fr *Frame, a []Value) (Value, bool) {
			s := fr.p.conc(a[0].(Str))
			if c, ok := s.Concrete(); ok {
				return CStr(f(c)), true
			}
			if !s.HasAtom() {
				return nil, false
			}
			var enc atomEnc
			in, ok := enc.enc(s)
			if !ok {
				return nil, false
			}
			out, ok := enc.dec(f(in))
			if !ok {
				return nil, false
			}
			return out, true
		})
	}
	for _, pk := range []struct {
		n                     string
		clean, dir, base, ext func(string) string
	}{{"path", path.Clean, path.Dir, path.Base, path.Ext}, {"path/filepath", filepath.Clean, filepath.Dir, filepath.Base, filepath.Ext}} {
		unary(pk.n+".Clean", pk.clean)
		unary(pk.n+".Dir", pk.dir)
		unary(pk.n+".Base", pk.base)
		unary(pk.n+".Ext", pk.ext)
	}
	unary("path/filepath.ToSlash", filepath.ToSlash)
	unary("path/filepath.FromSlash", filepath.FromSlash)
	join := func(f func(...string) string) Intercept {
		return func(fr *Frame, a []Value) (Value, bool) {
			var enc atomEnc
			var parts []string
			anySym := false
			for _, v := range a[0].([]Value) {
				s := fr.p.conc(v.(Str))
				if _, ok := s.Concrete(); !ok {
					anySym = true
				}
				in, ok := enc.enc(s)
				if !ok {
					return nil, false
				}
				parts = append(parts, in)
			}
			_ = anySym
			out, ok := enc.dec(f(parts...))
			if !ok {
				return nil, false
			}
			return out, true
		}
	}
	e.onMaybe("path.Join", join(path.Join))
	e.onMaybe("path/filepath.Join", join(filepath.Join))
}

// perSegment lifts a string function over ropes with opaque tokens: concrete
// runs go through the real function (its SSA), tokens pass unchanged. Sound
// for functions that act bytewise on characters no token can contain (URL
// escaping and unescaping: tokens are alphanumeric).
func perSegment(e *Engine, name string, tuple bool) {
	e.onMaybe(name, func(fr *Frame, a []Value) (Value, bool) {
		s, ok := a[0].(Str)
		if !ok || s.Fin != nil || !s.HasAtom() {
			return nil, false
		}
		for _, g := range s.Segs {
			if g.B != nil || (g.A != nil && g.A.Kind == "b64") {
				return nil, false
			}
		}
		var bl builder
		for _, g := range s.Segs {
			if g.A != nil {
				bl.addSeg(g)
				continue
			}
			args := append([]Value{CStr(g.S)}, a[1:]...)
			res := fr.p.callSSA(fr.caller, fr.callpos, fr.fn, args, nil)
			if tuple {
				t := res.(Tuple)
				if ei := t[1].(Iface); ei.T != nil {
					return Tuple{Str{}, ei}, true
				}
				res = t[0]
			}
			bl.addStr(res.(Str))
		}
		if tuple {
			return Tuple{bl.str(), Iface{}}, true
		}
		return bl.str(), true
	})
}

func registerURL(e *Engine) {
	perSegment(e, "net/url.escape", false)
	perSegment(e, "net/url.unescape", true)
	perSegment(e, "net/url.QueryEscape", false)
	perSegment(e, "net/url.PathEscape", false)
	perSegment(e, "net/url.QueryUnescape", true)
	perSegment(e, "net/url.PathUnescape", true)
}
