package main

import (
	"fmt"
	"os"

	"verif/gosym/runner"
)

func main() {
	os.Exit(runner.Main(os.Args[1:]))
}

var _ = fmt.Sprint
