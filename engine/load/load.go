// Package load builds the SSA program for /repo plus overlay harness files.
package load

import (
	"fmt"
	"os"
	"path/filepath"
	"regexp"
	"sort"
	"strings"

	"golang.org/x/tools/go/packages"
	"golang.org/x/tools/go/ssa"
	"golang.org/x/tools/go/ssa/ssautil"
)

type Harness struct {
	File    string // source file under /verif/harness
	PkgDir  string // package directory relative to the repo root
	PkgName string
	Src     []byte
	Subst   [][2]string // (package dir, import path) pairs: that package imports the model instead
	Use     []string    // model package directories under /verif/harness to add as /repo/internal/<dir>
}

var useRE = regexp.MustCompile(`(?m)^//zz:use\s+(\w+)`)
var substRE = regexp.MustCompile(`(?m)^//zz:subst\s+(\S+)\s+(\S+)`)

// substModel maps a substituted import path to the model package directory
// under /verif/harness and its import path inside the repo module.
var substModel = map[string][2]string{
	"os":                         {"zzos", "github.com/regclient/regclient/internal/zzos"},
	"archive/tar":                {"zztar", "github.com/regclient/regclient/internal/zztar"},
	"github.com/yuin/gopher-lua": {"zzlua", "github.com/regclient/regclient/internal/zzlua"},
	"github.com/regclient/regclient/cmd/regbot/internal/go2lua": {"zzgo2lua", "github.com/regclient/regclient/internal/zzgo2lua"},
	// "<import>@<variant>" selects another model for the same import
	"archive/tar@bytes":                  {"zztarb", "github.com/regclient/regclient/internal/zztarb"},
	"compress/gzip":                      {"zzgzip", "github.com/regclient/regclient/internal/zzgzip"},
	"github.com/klauspost/compress/zstd": {"zzzstd", "github.com/regclient/regclient/internal/zzzstd"},
}

var pkgDirRE = regexp.MustCompile(`(?m)^//zz:pkg\s+(\S+)`)
var pkgNameRE = regexp.MustCompile(`(?m)^package\s+(\w+)`)

// ReadHarnesses reads every .go file in dir (one property).
func ReadHarnesses(dir string) ([]Harness, error) {
	ents, err := os.ReadDir(dir)
	if err != nil {
		return nil, err
	}
	var hs []Harness
	for _, e := range ents {
		if !strings.HasSuffix(e.Name(), ".go") {
			continue
		}
		b, err := os.ReadFile(filepath.Join(dir, e.Name()))
		if err != nil {
			return nil, err
		}
		m := pkgDirRE.FindSubmatch(b)
		n := pkgNameRE.FindSubmatch(b)
		if m == nil || n == nil {
			return nil, fmt.Errorf("%s: missing //zz:pkg or package clause", e.Name())
		}
		h := Harness{File: filepath.Join(dir, e.Name()), PkgDir: string(m[1]), PkgName: string(n[1]), Src: b}
		for _, sm := range substRE.FindAllSubmatch(b, -1) {
			h.Subst = append(h.Subst, [2]string{string(sm[1]), string(sm[2])})
		}
		for _, um := range useRE.FindAllSubmatch(b, -1) {
			h.Use = append(h.Use, string(um[1]))
		}
		hs = append(hs, h)
	}
	sort.Slice(hs, func(i, j int) bool { return hs[i].File < hs[j].File })
	return hs, nil
}

// Overlay computes the overlay map (virtual path -> contents) for a set of
// harnesses: the harness files themselves, one runtime file per package, and
// the model package internal/zzmodel.
func Overlay(repo, verif string, hs []Harness) (map[string][]byte, []string, error) {
	ov := map[string][]byte{}
	rt, err := os.ReadFile(filepath.Join(verif, "harness", "rt", "zz_rt.go.tmpl"))
	if err != nil {
		return nil, nil, err
	}
	dirs := map[string]string{}
	for _, h := range hs {
		dir := filepath.Join(repo, h.PkgDir)
		ov[filepath.Join(dir, "zz_h_"+filepath.Base(h.File))] = h.Src
		dirs[h.PkgDir] = h.PkgName
	}
	var pats []string
	for d, name := range dirs {
		ov[filepath.Join(repo, d, "zz_rt.go")] = []byte(strings.Replace(string(rt), "package PKGNAME", "package "+name, 1))
		pats = append(pats, "./"+d)
	}
	mdir := filepath.Join(verif, "harness", "zzmodel")
	ents, err := os.ReadDir(mdir)
	if err != nil {
		return nil, nil, err
	}
	for _, e := range ents {
		if strings.HasSuffix(e.Name(), ".go") {
			b, err := os.ReadFile(filepath.Join(mdir, e.Name()))
			if err != nil {
				return nil, nil, err
			}
			ov[filepath.Join(repo, "internal", "zzmodel", e.Name())] = b
		}
	}
	pats = append(pats, "./internal/zzmodel")
	// shared model packages requested by a harness (//zz:use <dir>)
	for _, h := range hs {
		for _, d := range h.Use {
			udir := filepath.Join(verif, "harness", d)
			ents, err := os.ReadDir(udir)
			if err != nil {
				return nil, nil, err
			}
			for _, e := range ents {
				if strings.HasSuffix(e.Name(), ".go") {
					b, err := os.ReadFile(filepath.Join(udir, e.Name()))
					if err != nil {
						return nil, nil, err
					}
					ov[filepath.Join(repo, "internal", d, e.Name())] = b
				}
			}
		}
	}
	// import substitutions: the package's files import the model package
	// under the original name (regenerated from /repo's current source)
	done := map[[2]string]bool{}
	for _, h := range hs {
		for _, sb := range h.Subst {
			if done[sb] {
				continue
			}
			done[sb] = true
			model, ok := substModel[sb[1]]
			if !ok {
				return nil, nil, fmt.Errorf("%s: no model for import %q", h.File, sb[1])
			}
			mdir := filepath.Join(verif, "harness", model[0])
			ents, err := os.ReadDir(mdir)
			if err != nil {
				return nil, nil, err
			}
			for _, e := range ents {
				if strings.HasSuffix(e.Name(), ".go") {
					b, err := os.ReadFile(filepath.Join(mdir, e.Name()))
					if err != nil {
						return nil, nil, err
					}
					ov[filepath.Join(repo, "internal", model[0], e.Name())] = b
				}
			}
			imp := sb[1]
			if i := strings.Index(imp, "@"); i >= 0 {
				imp = imp[:i]
			}
			pdir := filepath.Join(repo, sb[0])
			files, err := os.ReadDir(pdir)
			if err != nil {
				return nil, nil, err
			}
			single := regexp.MustCompile(`(?m)^import\s+"` + regexp.QuoteMeta(imp) + `"\s*$`)
			inBlock := regexp.MustCompile(`(?m)^(\s*)"` + regexp.QuoteMeta(imp) + `"\s*$`)
			aliased := regexp.MustCompile(`(?m)^(\s*(?:import\s+)?)(\w+)\s+"` + regexp.QuoteMeta(imp) + `"\s*$`)
			alias := filepath.Base(imp)
			for _, f := range files {
				if !strings.HasSuffix(f.Name(), ".go") || strings.HasSuffix(f.Name(), "_test.go") {
					continue
				}
				src, ok := ov[filepath.Join(pdir, f.Name())]
				if !ok {
					src, err = os.ReadFile(filepath.Join(pdir, f.Name()))
					if err != nil {
						return nil, nil, err
					}
				}
				out := single.ReplaceAll(src, []byte("import "+alias+" \""+model[1]+"\""))
				out = inBlock.ReplaceAll(out, []byte("${1}"+alias+" \""+model[1]+"\""))
				out = aliased.ReplaceAll(out, []byte("${1}${2} \""+model[1]+"\""))
				if string(out) != string(src) {
					ov[filepath.Join(pdir, f.Name())] = out
				}
			}
		}
	}
	// interposition hooks
	doneH := map[Hook]bool{}
	for _, h := range hs {
		for _, hk := range parseHooks(h.Src) {
			if doneH[hk] {
				continue
			}
			doneH[hk] = true
			p, out, err := applyHook(repo, hk, ov)
			if err != nil {
				return nil, nil, fmt.Errorf("%s: %v", h.File, err)
			}
			ov[p] = out
		}
	}
	sort.Strings(pats)
	return ov, pats, nil
}

// Program loads the packages and builds SSA for them and all dependencies.
func Program(repo string, overlay map[string][]byte, patterns []string) (*ssa.Program, []*ssa.Package, error) {
	cfg := &packages.Config{
		Mode: packages.NeedName | packages.NeedFiles | packages.NeedCompiledGoFiles | packages.NeedImports |
			packages.NeedDeps | packages.NeedTypes | packages.NeedSyntax | packages.NeedTypesInfo | packages.NeedTypesSizes | packages.NeedModule,
		Dir:     repo,
		Overlay: overlay,
		Env:     append(os.Environ(), "GOFLAGS=-mod=mod", "GOPROXY=off", "GOSUMDB=off", "GOTOOLCHAIN=local", "CGO_ENABLED=0"),
	}
	pkgs, err := packages.Load(cfg, patterns...)
	if err != nil {
		return nil, nil, err
	}
	var errs []string
	packages.Visit(pkgs, nil, func(p *packages.Package) {
		for _, e := range p.Errors {
			errs = append(errs, e.Error())
		}
	})
	if len(errs) > 0 {
		if len(errs) > 20 {
			errs = errs[:20]
		}
		return nil, nil, fmt.Errorf("load errors:\n%s", strings.Join(errs, "\n"))
	}
	prog, spkgs := ssautil.AllPackages(pkgs, ssa.InstantiateGenerics)
	prog.Build()
	return prog, spkgs, nil
}
