package runner

import (
	"encoding/json"
	"fmt"
	"os"
	"os/exec"
	"path/filepath"
	"sort"
	"strings"

	"verif/gosym/sym"
)

func solverVersion(bin string) string {
	out, err := exec.Command(bin, "--version").Output()
	if err != nil {
		return bin + ": ?"
	}
	return strings.TrimSpace(strings.Split(string(out), "\n")[0])
}

func writeEvidence(verif, prop, tier string, seed int64, reports []*harnessReport, validated, incon, viol, known int, wall, loadS float64, cfg sym.Config) error {
	states, obligations, discharged, queries, trivial := 0, 0, 0, 0, 0
	var steps int64
	solverS := 0.0
	funcs := map[string]bool{}
	uses := map[string]bool{}
	var samples []interface{}
	var perHarness []map[string]interface{}
	for _, r := range reports {
		states += r.Paths
		steps += r.Steps
		obligations += r.Obligations
		discharged += r.Discharged
		trivial += r.Trivial
		queries += r.Queries
		solverS += r.SolverS
		for _, f := range r.Funcs {
			funcs[f] = true
		}
		for _, u := range r.Uses {
			uses[u] = true
		}
		for i, s := range r.Samples {
			if i < 3 {
				samples = append(samples, map[string]string{"harness": r.Name, "discharged_obligation": s})
			}
		}
		n := 0
		for label, vec := range r.Witness {
			if n >= 2 {
				break
			}
			n++
			samples = append(samples, map[string]interface{}{"harness": r.Name, "reach_label": label, "witness_vector": vec})
		}
		labels := make([]string, 0, len(r.Reached))
		for l := range r.Reached {
			labels = append(labels, l)
		}
		sort.Strings(labels)
		inc := []string{}
		for k, v := range r.Incon {
			inc = append(inc, fmt.Sprintf("x%d %s", v, k))
		}
		sort.Strings(inc)
		perHarness = append(perHarness, map[string]interface{}{
			"harness": r.Name, "package": r.PkgDir, "paths": r.Paths, "ssa_instructions": r.Steps,
			"obligations": r.Obligations, "discharged": r.Discharged, "discharged_without_solver": r.Trivial,
			"violations": len(r.Violations), "inconclusive": inc, "labels_reached": labels,
			"queries": r.Queries, "solver_s": round2(r.SolverS), "wall_s": round2(r.WallS),
		})
	}
	if len(samples) == 0 {
		samples = append(samples, "no obligation needed the solver and no label was reached")
	}
	fl := make([]string, 0, len(funcs))
	for f := range funcs {
		if strings.Contains(f, ".ZZ") || strings.Contains(f, ".zz") || strings.Contains(f, "zzmodel") {
			continue
		}
		fl = append(fl, f)
	}
	sort.Strings(fl)
	var models, assumptions, redirects []string
	for u := range uses {
		switch {
		case strings.HasPrefix(u, "redirect:"):
			redirects = append(redirects, strings.TrimPrefix(u, "redirect:"))
		case strings.HasPrefix(u, "assume:"):
			assumptions = append(assumptions, strings.TrimPrefix(u, "assume:"))
		default:
			models = append(models, u)
		}
	}
	sort.Strings(models)
	sort.Strings(assumptions)
	sort.Strings(redirects)
	assumptions = append(assumptions,
		"bounds are those coded in the harness for this tier (see DESIGN.md section 5 and the harness source); nothing outside them is claimed",
		"64-bit int; integer arithmetic is exact (wrap-around re-imposed where the tracked interval can leave the type's range)",
		"every model listed under coverage.models_used / coverage.redirects replaces the real library or callee")
	ev := map[string]interface{}{
		"property_id": prop,
		"tier":        tier,
		"seed":        seed,
		"level":       "model_checking",
		"wall_s":      round2(wall),
		"violations":  viol,
		"assumptions": assumptions,
		"coverage": map[string]interface{}{
			"states":                        states,
			"transitions":                   steps,
			"traces_validated_against_impl": validated,
			"samples":                       samples,
			"obligations":                   obligations,
			"discharged":                    discharged,
			"discharged_without_solver":     trivial,
			"inconclusive":                  incon,
			"known_findings_reported":       known,
			"queries":                       queries,
			"solver_s":                      round2(solverS),
			"load_s":                        round2(loadS),
			"solver_versions":               []string{solverVersion(cfg.SolverBin)},
			"functions_encoded":             fl,
			"models_used":                   models,
			"redirects":                     redirects,
			"trusted_base":                  append([]string{"gosym SSA interpreter and SMT encoding (this repository)", solverVersion(cfg.SolverBin), "golang.org/x/tools v0.29.0 go/ssa"}, models...),
			"harnesses":                     perHarness,
			"explanation":                   "states = completed symbolic paths; transitions = SSA instructions interpreted; traces_validated_against_impl = solver witnesses replayed through the natively compiled real code that reached the same label without failing an assertion",
			"exhaustive":                    false,
		},
	}
	b, err := json.MarshalIndent(ev, "", " ")
	if err != nil {
		return err
	}
	dir := evidenceDir(verif)
	os.MkdirAll(dir, 0o755)
	return os.WriteFile(filepath.Join(dir, prop+".json"), append(b, '\n'), 0o644)
}

func round2(f float64) float64 { return float64(int64(f*100+0.5)) / 100 }
