// Package runner implements the gosym command line: load /repo with the
// harness overlay, explore every harness of a property symbolically, replay
// witnesses and counterexamples natively, write evidence.
package runner

import (
	"bytes"
	"encoding/json"
	"flag"
	"fmt"
	"os"
	"os/exec"
	"path/filepath"
	"regexp"
	"runtime"
	"sort"
	"strconv"
	"strings"
	"time"

	"golang.org/x/tools/go/ssa"
	"verif/gosym/load"
	"verif/gosym/smt"
	"verif/gosym/sym"
)

// repoDir is /repo for every registered command; GOSYM_REPO (development: seeded
// copies checked beside the real tree) points the whole pipeline at another checkout,
// and then evidence and replays go under out/scratch/<base name>/ so the real ones stay.
var repoDir = envOr("GOSYM_REPO", "/repo")

func outDir(verif string) string {
	if repoDir != "/repo" {
		return filepath.Join(verif, "out", "scratch", filepath.Base(repoDir))
	}
	return filepath.Join(verif, "out")
}

func evidenceDir(verif string) string {
	if repoDir != "/repo" {
		return filepath.Join(outDir(verif), "evidence")
	}
	return filepath.Join(verif, "evidence")
}

func verifDir() string {
	if v := os.Getenv("VERIF_DIR"); v != "" {
		return v
	}
	exe, err := os.Executable()
	if err == nil {
		// <verif>/bin/gosym
		d := filepath.Dir(filepath.Dir(exe))
		if _, err := os.Stat(filepath.Join(d, "harness")); err == nil {
			return d
		}
	}
	return "/verif"
}

type Finding struct {
	Property string `json:"property"`
	Key      string `json:"key"`
	Status   string `json:"status"` // known | fixed
	Commit   string `json:"commit,omitempty"`
	What     string `json:"what"`
}

type harnessReport struct {
	Name        string
	PkgDir      string
	Paths       int
	Steps       int64
	Obligations int
	Discharged  int
	Trivial     int
	Queries     int
	SolverS     float64
	Reached     map[string]int
	Witness     map[string]map[string][]interface{}
	Violations  []sym.Violation
	Incon       map[string]int
	Funcs       []string
	Uses        []string
	Samples     []string
	WallS       float64
	UnknownBr   int
}

type replayCase struct {
	ID       string                   `json:"id"`
	Harness  string                   `json:"harness"`
	Vector   map[string][]interface{} `json:"vector"`
	Tier     int                      `json:"tier"`
	Params   map[string]int           `json:"params"`
	Repeat   int                      `json:"repeat"`
	WantKind string                   `json:"want_kind"`
	WantMsg  string                   `json:"want_msg"`
}

type replayEvent struct{ Kind, Msg string }

func Main(args []string) int {
	if len(args) == 0 {
		fmt.Println("usage: gosym check <Cxx> [--tier quick|thorough] [--only name] [-v] | gosym replay <dir>")
		return 2
	}
	switch args[0] {
	case "check":
		return cmdCheck(args[1:])
	case "replay":
		return cmdReplay(args[1:])
	}
	fmt.Println("unknown command", args[0])
	return 2
}

func cmdReplay(args []string) int {
	if len(args) < 1 {
		fmt.Println("usage: gosym replay <dir>")
		return 2
	}
	dir := args[0]
	cmdb, err := os.ReadFile(filepath.Join(dir, "cmd.txt"))
	if err != nil {
		fmt.Println("cannot read", filepath.Join(dir, "cmd.txt"), err)
		return 2
	}
	fmt.Println("replaying:", strings.TrimSpace(string(cmdb)))
	c := exec.Command("sh", "-c", string(cmdb))
	c.Dir = repoDir
	c.Stdout, c.Stderr = os.Stdout, os.Stderr
	if err := c.Run(); err != nil {
		return 1
	}
	return 0
}

func cmdCheck(args []string) int {
	fs := flag.NewFlagSet("check", flag.ContinueOnError)
	tier := fs.String("tier", envOr("VERIF_TIER", "quick"), "quick|thorough")
	only := fs.String("only", "", "run only harnesses whose name contains this")
	verbose := fs.Bool("v", false, "verbose")
	noReplay := fs.Bool("noreplay", false, "skip native replays (development)")
	workers := fs.Int("workers", runtime.NumCPU(), "parallel workers")
	solver := fs.String("solver", envOr("GOSYM_SOLVER", "z3-new"), "solver binary")
	timeout := fs.Int("timeout", 20000, "solver timeout per query (ms)")
	dirFlag := fs.String("dir", "", "harness directory to use (default: the property id); lets several properties share harnesses")
	labelPfx := fs.String("labels", "", "only assertion labels with this prefix belong to the property (others are ignored)")
	var params multiFlag
	fs.Var(&params, "p", "harness parameter name=value (repeatable)")
	var prop string
	if len(args) > 0 && !strings.HasPrefix(args[0], "-") {
		prop = args[0]
		args = args[1:]
	}
	if err := fs.Parse(args); err != nil {
		return 2
	}
	if prop == "" && fs.NArg() > 0 {
		prop = fs.Arg(0)
	}
	if prop == "" {
		fmt.Println("missing property id")
		return 2
	}
	start := time.Now()
	if v, err := strconv.Atoi(os.Getenv("GOSYM_SLOW")); err == nil {
		smt.SlowMS = v
	}
	verif := verifDir()
	seed, _ := strconv.ParseInt(envOr("VERIF_SEED", "0"), 10, 64)
	tierN := 0
	if *tier == "thorough" {
		tierN = 1
	}
	hdir := prop
	if *dirFlag != "" {
		hdir = *dirFlag
	}
	hs, err := load.ReadHarnesses(filepath.Join(verif, "harness", hdir))
	if err != nil {
		fmt.Println("ERROR:", err)
		return 2
	}
	ov, pats, err := load.Overlay(repoDir, verif, hs)
	if err != nil {
		fmt.Println("ERROR:", err)
		return 2
	}
	tLoad := time.Now()
	prog, _, err := load.Program(repoDir, ov, pats)
	if err != nil {
		// a tree that does not compile cannot be checked: report and fail closed
		fmt.Println("ERROR: loading /repo with harness overlay failed:", err)
		return 2
	}
	loadS := time.Since(tLoad).Seconds()
	if *verbose {
		fmt.Printf("loaded in %.1fs\n", loadS)
	}
	pm := map[string]int64{}
	for _, kv := range params {
		if i := strings.IndexByte(kv, '='); i > 0 {
			v, _ := strconv.ParseInt(kv[i+1:], 10, 64)
			pm[kv[:i]] = v
		}
	}
	cfg := sym.Config{Tier: tierN, MaxSteps: 20_000_000, MaxDecisions: 400, MaxPaths: 400_000, Workers: *workers,
		SolverBin: *solver, TimeoutMS: *timeout, Seed: seed, Verbose: *verbose, Params: pm}
	eng := sym.NewEngine(prog, cfg)

	// harness entry points
	type entry struct {
		fn     *ssa.Function
		pkgDir string
	}
	var entries []entry
	fnRE := regexp.MustCompile(`(?m)^func (ZZ` + hdir + `_\w+)\(\)`)
	for _, h := range hs {
		pkgPath := "github.com/regclient/regclient"
		if h.PkgDir != "." {
			pkgPath += "/" + h.PkgDir
		}
		spkg := prog.ImportedPackage(pkgPath)
		if spkg == nil {
			fmt.Println("ERROR: package not found:", pkgPath)
			return 2
		}
		for _, m := range fnRE.FindAllSubmatch(h.Src, -1) {
			name := string(m[1])
			if *only != "" && !onlyMatch(*only, name) {
				continue
			}
			fn := spkg.Func(name)
			if fn == nil {
				fmt.Println("ERROR: harness function not found:", name)
				return 2
			}
			entries = append(entries, entry{fn, h.PkgDir})
		}
	}
	if len(entries) == 0 {
		fmt.Println("ERROR: no harness functions for", prop)
		return 2
	}
	var reports []*harnessReport
	for _, en := range entries {
		t0 := time.Now()
		eng.Run(en.fn)
		if *labelPfx != "" {
			// keep only the violations that belong to this property
			var keep []sym.Violation
			for _, v := range eng.Violations {
				if strings.HasPrefix(v.Label, *labelPfx) || v.Kind != "assert" {
					keep = append(keep, v)
				}
			}
			eng.Violations = keep
		}
		r := &harnessReport{Name: en.fn.Name(), PkgDir: en.pkgDir, Paths: eng.Paths, Steps: eng.Steps, Obligations: eng.Obligations,
			Discharged: eng.Discharged, Trivial: eng.Trivial, Queries: eng.Queries, SolverS: eng.SolverTime.Seconds(),
			Reached: eng.Reached, Witness: eng.Witness, Violations: eng.Violations, Incon: eng.Incon, Samples: eng.Samples,
			WallS: time.Since(t0).Seconds(), UnknownBr: eng.UnknownBr}
		for f := range eng.Funcs {
			r.Funcs = append(r.Funcs, f)
		}
		sort.Strings(r.Funcs)
		for u := range eng.Uses {
			r.Uses = append(r.Uses, u)
		}
		sort.Strings(r.Uses)
		reports = append(reports, r)
		fmt.Printf("harness %s: paths=%d obligations=%d discharged=%d (trivial %d) violations=%d inconclusive=%d labels=%d queries=%d solver=%.1fs wall=%.1fs\n",
			r.Name, r.Paths, r.Obligations, r.Discharged, r.Trivial, len(r.Violations), sumMap(r.Incon), len(r.Reached), r.Queries, r.SolverS, r.WallS)
		if *verbose {
			for k, v := range eng.MergeStats {
				fmt.Printf("   merged %s: explored=%d queries(incl nested)=%d\n", k, v[0], v[1])
			}
			for k, v := range r.Incon {
				fmt.Printf("   incon x%d: %s\n", v, k)
			}
			for _, v := range r.Violations {
				fmt.Printf("   candidate %s (%s) %s %s vec=%v\n", v.Label, v.Kind, v.Msg, v.Pos, v.Vector)
			}
		}
	}

	// ---- native replay of witnesses and counterexamples ----
	findings := readFindings(filepath.Join(verif, "known_findings.json"))
	exit := 0
	validated := 0
	inconTotal := 0
	violTotal := 0
	var knownLines, violLines, inconLines []string
	byPkg := map[string][]replayCase{}
	for _, r := range reports {
		rep := 1
		for _, u := range r.Uses {
			if strings.HasPrefix(u, "tasks:") {
				rep = 40 // schedule-dependent: the Go runtime picks among ready select cases
			}
		}
		for label, vec := range r.Witness {
			byPkg[r.PkgDir] = append(byPkg[r.PkgDir], replayCase{ID: "w/" + r.Name + "/" + label, Harness: r.Name, Vector: vec, Tier: tierN, Params: toIntMap(pm),
				Repeat: rep, WantKind: "REACH", WantMsg: label})
		}
		for _, v := range r.Violations {
			c := replayCase{ID: "v/" + r.Name + "/" + v.Label, Harness: r.Name, Vector: v.Vector, Tier: tierN, Params: toIntMap(pm), Repeat: rep}
			switch v.Kind {
			case "assert":
				c.WantKind, c.WantMsg = "ASSERT-FAIL", v.Label
			case "panic":
				c.WantKind = "PANIC"
			case "deadlock":
				c.WantKind = "TIMEOUT"
				c.Repeat = 1
			}
			byPkg[r.PkgDir] = append(byPkg[r.PkgDir], c)
		}
	}
	events := map[string][]replayEvent{}
	replayDirs := map[string]string{}
	if !*noReplay {
		for pkgDir, cases := range byPkg {
			sort.Slice(cases, func(i, j int) bool { return cases[i].ID < cases[j].ID })
			dir := filepath.Join(outDir(verif), "replays", prop, strings.ReplaceAll(pkgDir, "/", "_"))
			ev, err := nativeReplay(verif, hs, pkgDir, cases, dir)
			if err != nil {
				inconLines = append(inconLines, fmt.Sprintf("INCONCLUSIVE property=%s reason=native replay failed for %s: %v", prop, pkgDir, err))
				inconTotal++
				continue
			}
			for id, e := range ev {
				events[id] = e
			}
			for _, c := range cases {
				replayDirs[c.ID] = dir
			}
		}
	}
	for _, r := range reports {
		for label := range r.Witness {
			id := "w/" + r.Name + "/" + label
			if *noReplay {
				continue
			}
			ok, why := witnessOK(events[id], label)
			if ok {
				validated++
			} else {
				r.Incon["witness replay mismatch for label "+label+": "+why]++
			}
		}
		for _, v := range r.Violations {
			id := "v/" + r.Name + "/" + v.Label
			key := r.Name + "/" + v.Label
			if *noReplay {
				r.Incon["unreplayed counterexample "+key]++
				continue
			}
			rep, how := violationReproduced(events[id], v)
			if !rep {
				r.Incon["SPURIOUS counterexample for "+key+" (native replay: "+how+")"]++
				continue
			}
			if f := findFinding(findings, prop, key); f != nil && f.Status == "known" {
				knownLines = append(knownLines, fmt.Sprintf("KNOWN-FINDING: property=%s %s [%s]", prop, f.What, key))
				continue
			}
			violTotal++
			// keep a per-violation replay directory
			vdir := filepath.Join(outDir(verif), "replays", prop, r.Name+"-"+v.Label)
			saveSingleReplay(verif, hs, r.PkgDir, replayCase{ID: id, Harness: r.Name, Vector: v.Vector, Tier: tierN, Params: toIntMap(pm)}, vdir)
			violLines = append(violLines, fmt.Sprintf("VIOLATION property=%s replay=%s", prop, vdir))
			fmt.Printf("  violated: harness=%s label=%s kind=%s %s %s\n  native: %s\n  vector: %s\n", r.Name, v.Label, v.Kind, v.Msg, v.Pos, how, vecString(v.Vector))
			exit = 1
		}
		for k, n := range r.Incon {
			inconTotal += n
			inconLines = append(inconLines, fmt.Sprintf("INCONCLUSIVE property=%s harness=%s count=%d reason=%s", prop, r.Name, n, k))
		}
		// vacuity guard: every harness must reach at least one label
		if len(r.Reached) == 0 {
			inconTotal++
			inconLines = append(inconLines, fmt.Sprintf("INCONCLUSIVE property=%s harness=%s reason=no reachability label was reached (vacuous harness)", prop, r.Name))
		}
	}
	sort.Strings(inconLines)
	for _, l := range inconLines {
		fmt.Println(l)
	}
	for _, l := range knownLines {
		fmt.Println(l)
	}
	for _, l := range violLines {
		fmt.Println(l)
	}
	// ---- evidence ----
	if err := writeEvidence(verif, prop, *tier, seed, reports, validated, inconTotal, violTotal, len(knownLines), time.Since(start).Seconds(), loadS, cfg); err != nil {
		fmt.Println("ERROR: writing evidence:", err)
		return 2
	}
	fmt.Printf("RESULT property=%s tier=%s harnesses=%d violations=%d known=%d inconclusive=%d witnesses_validated=%d wall=%.1fs\n",
		prop, *tier, len(reports), violTotal, len(knownLines), inconTotal, validated, time.Since(start).Seconds())
	if exit == 0 && inconTotal > 0 {
		// undecided obligations, an exhausted budget or an unreproduced counterexample: neither held nor violated
		return 2
	}
	return exit
}

// onlyMatch: the --only argument is a comma separated list of substrings; a
// trailing '$' anchors one at the end of the harness name.
func onlyMatch(only, name string) bool {
	for _, pat := range strings.Split(only, ",") {
		if strings.HasSuffix(pat, "$") {
			if strings.HasSuffix(name, strings.TrimSuffix(pat, "$")) {
				return true
			}
		} else if strings.Contains(name, pat) {
			return true
		}
	}
	return false
}

type multiFlag []string

func (m *multiFlag) String() string     { return strings.Join(*m, ",") }
func (m *multiFlag) Set(v string) error { *m = append(*m, v); return nil }

func envOr(k, d string) string {
	if v := os.Getenv(k); v != "" {
		return v
	}
	return d
}

func sumMap(m map[string]int) int {
	n := 0
	for _, v := range m {
		n += v
	}
	return n
}

func toIntMap(m map[string]int64) map[string]int {
	out := map[string]int{}
	for k, v := range m {
		out[k] = int(v)
	}
	return out
}

func vecString(v map[string][]interface{}) string {
	b, _ := json.Marshal(v)
	return string(b)
}

func readFindings(path string) []Finding {
	b, err := os.ReadFile(path)
	if err != nil {
		return nil
	}
	var fs []Finding
	json.Unmarshal(b, &fs)
	return fs
}

func findFinding(fs []Finding, prop, key string) *Finding {
	for i := range fs {
		if fs[i].Property == prop && fs[i].Key == key {
			return &fs[i]
		}
	}
	return nil
}

func witnessOK(all []replayEvent, label string) (bool, string) {
	// split into attempts; any attempt that reaches the label cleanly counts
	var attempts [][]replayEvent
	for _, e := range all {
		if e.Kind == "ATTEMPT" {
			attempts = append(attempts, nil)
			continue
		}
		if len(attempts) == 0 {
			attempts = append(attempts, nil)
		}
		attempts[len(attempts)-1] = append(attempts[len(attempts)-1], e)
	}
	why := "no output"
	for _, ev := range attempts {
		ok, w := witnessAttemptOK(ev, label)
		if ok {
			return true, ""
		}
		why = w
	}
	return false, why
}

func witnessAttemptOK(ev []replayEvent, label string) (bool, string) {
	reached := false
	for _, e := range ev {
		switch e.Kind {
		case "REACH":
			if e.Msg == label {
				reached = true
			}
		case "ASSERT-FAIL", "PANIC", "TIMEOUT", "BADVECTOR", "ASSUME-FALSE", "ERROR":
			if !reached {
				return false, e.Kind + " " + e.Msg + " before the label"
			}
		}
	}
	if !reached {
		return false, "label not reached natively"
	}
	return true, ""
}

func violationReproduced(ev []replayEvent, v sym.Violation) (bool, string) {
	var all []string
	for _, e := range ev {
		all = append(all, e.Kind+" "+e.Msg)
		switch v.Kind {
		case "assert":
			if e.Kind == "ASSERT-FAIL" && e.Msg == v.Label {
				return true, "assertion " + v.Label + " failed natively"
			}
		case "panic":
			if e.Kind == "PANIC" {
				return true, "native panic: " + e.Msg
			}
		case "deadlock":
			if e.Kind == "TIMEOUT" {
				return true, "native run did not terminate"
			}
		}
	}
	if len(all) == 0 {
		return false, "no output"
	}
	if len(all) > 6 {
		all = all[len(all)-6:]
	}
	return false, strings.Join(all, "; ")
}

var harnessFnRE = regexp.MustCompile(`(?m)^func (ZZC\d+_\w+)\(\)`)

// materialise writes the overlay files for native replay of one package's
// harnesses: the same overlay the symbolic run used (harness files, runtime,
// substituted imports, model packages) plus a generated test driver.
func materialise(verif string, hs []load.Harness, pkgDir string, cases []replayCase, dir string) (string, error) {
	os.RemoveAll(dir)
	if err := os.MkdirAll(dir, 0o755); err != nil {
		return "", err
	}
	ov, _, err := load.Overlay(repoDir, verif, hs)
	if err != nil {
		return "", err
	}
	repl := map[string]string{}
	n := 0
	var paths []string
	for p := range ov {
		paths = append(paths, p)
	}
	sort.Strings(paths)
	for _, p := range paths {
		n++
		local := filepath.Join(dir, fmt.Sprintf("f%03d_%s", n, filepath.Base(p)))
		if err := os.WriteFile(local, ov[p], 0o644); err != nil {
			return "", err
		}
		repl[p] = local
	}
	pkgName := ""
	var fns []string
	for _, h := range hs {
		if h.PkgDir != pkgDir {
			continue
		}
		pkgName = h.PkgName
		for _, m := range harnessFnRE.FindAllSubmatch(h.Src, -1) {
			fns = append(fns, string(m[1]))
		}
	}
	if pkgName == "" {
		return "", fmt.Errorf("no harness in %s", pkgDir)
	}
	var tb strings.Builder
	fmt.Fprintf(&tb, "package %s\n\nimport \"testing\"\n\nfunc TestZZReplay(t *testing.T) {\n\tzzRunCases(map[string]func(){\n", pkgName)
	for _, f := range fns {
		fmt.Fprintf(&tb, "\t\t%q: %s,\n", f, f)
	}
	tb.WriteString("\t})\n}\n")
	os.WriteFile(filepath.Join(dir, "zz_replay_test.go"), []byte(tb.String()), 0o644)
	repl[filepath.Join(repoDir, pkgDir, "zz_replay_test.go")] = filepath.Join(dir, "zz_replay_test.go")
	ob, _ := json.MarshalIndent(map[string]interface{}{"Replace": repl}, "", " ")
	os.WriteFile(filepath.Join(dir, "overlay.json"), ob, 0o644)
	cb, _ := json.MarshalIndent(cases, "", " ")
	os.WriteFile(filepath.Join(dir, "cases.json"), cb, 0o644)
	cmd := fmt.Sprintf("cd %s && GOFLAGS=-mod=mod GOPROXY=off GOSUMDB=off GOTOOLCHAIN=local ZZ_CASES=%s go test -vet=off -count=1 -timeout 600s -run '^TestZZReplay$' -v -overlay %s ./%s",
		repoDir, filepath.Join(dir, "cases.json"), filepath.Join(dir, "overlay.json"), pkgDir)
	os.WriteFile(filepath.Join(dir, "cmd.txt"), []byte(cmd+"\n"), 0o644)
	return cmd, nil
}

func nativeReplay(verif string, hs []load.Harness, pkgDir string, cases []replayCase, dir string) (map[string][]replayEvent, error) {
	ev := map[string][]replayEvent{}
	var allOut bytes.Buffer
	remaining := cases
	// A failed assertion inside a goroutine of the code under test ends the test binary: the
	// cases after it have produced nothing. They are run again in a fresh process (bounded).
	for round := 0; round < 8 && len(remaining) > 0; round++ {
		cmd, err := materialise(verif, hs, pkgDir, remaining, dir)
		if err != nil {
			return nil, err
		}
		c := exec.Command("sh", "-c", cmd)
		var out bytes.Buffer
		c.Stdout, c.Stderr = &out, &out
		runErr := c.Run()
		allOut.Write(out.Bytes())
		seen := false
		for _, l := range strings.Split(out.String(), "\n") {
			if !strings.HasPrefix(l, "ZZ|") {
				continue
			}
			seen = true
			parts := strings.SplitN(l, "|", 4)
			if len(parts) < 4 {
				continue
			}
			ev[parts[1]] = append(ev[parts[1]], replayEvent{parts[2], parts[3]})
		}
		if !seen && runErr != nil {
			os.WriteFile(filepath.Join(dir, "output.txt"), allOut.Bytes(), 0o644)
			if round == 0 {
				return nil, fmt.Errorf("go test failed: %v: %s", runErr, trimOut(out.String()))
			}
			break
		}
		if runErr == nil {
			break
		}
		var next []replayCase
		for _, rc := range remaining {
			if len(ev[rc.ID]) == 0 {
				next = append(next, rc)
			}
		}
		if len(next) == len(remaining) {
			break
		}
		remaining = next
	}
	os.WriteFile(filepath.Join(dir, "output.txt"), allOut.Bytes(), 0o644)
	// leave the full case list behind for `gosym replay`
	if len(remaining) != len(cases) {
		materialise(verif, hs, pkgDir, cases, dir)
	}
	return ev, nil
}

func saveSingleReplay(verif string, hs []load.Harness, pkgDir string, c replayCase, dir string) {
	materialise(verif, hs, pkgDir, []replayCase{c}, dir)
}

func trimOut(s string) string {
	if len(s) > 1500 {
		return s[len(s)-1500:]
	}
	return s
}
