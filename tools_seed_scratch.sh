#!/bin/bash
# usage: tools_seed_scratch.sh <seed-id> <property> [extra gosym args]
# Development shortcut: checks a seeded change in a scratch worktree of /repo (GOSYM_REPO) so that
# /repo itself stays untouched and several seeds can be checked at once. Evidence and replays of
# such a run go under /verif/out/scratch/. The run of record is tools_seed_check.sh (applies to /repo).
ID=$1; PROP=$2; shift 2
D=/verif/seeded/$ID
W=/tmp/sr/$ID
mkdir -p /tmp/sr; git -C /repo worktree add --detach $W HEAD >/dev/null 2>&1 || exit 2
git -C $W apply $D/patch.diff || { git -C /repo worktree remove --force $W; exit 2; }
cd /verif && CMD=$(python3 -c "import json;print([c['quick_cmd'] for c in json.load(open('/verif/MANIFEST.json'))['checks'] if c['property_id']=='$PROP'][0])")
GOSYM_REPO=$W timeout 2400 $CMD "$@" 2>&1 | grep -E "^(VIOLATION|RESULT|KNOWN|INCONCLUSIVE|  violated|ERROR)" | cut -c1-260 | head -12
git -C /repo worktree remove --force $W
rm -rf /verif/out/scratch/$ID
