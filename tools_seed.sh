#!/bin/bash
# usage: tools_seed.sh <seed-id> <property> <worktree>
# Confirms a seeded change (builds, existing tests pass, demo fails with / passes without),
# stores it under /verif/seeded/<seed-id>/ and runs the property's quick check against it.
set -u
ID=$1; PROP=$2; WT=$3
export GOFLAGS=-mod=mod GOPROXY=off GOSUMDB=off GOTOOLCHAIN=local
D=/verif/seeded/$ID; mkdir -p $D
cd $WT || exit 2
git diff > $D/patch.diff
DEMO=$(git ls-files --others --exclude-standard | grep '_test.go$' | head -1)
cp "$DEMO" $D/ 2>/dev/null
cp SEED_NOTES.md $D/ 2>/dev/null
PKG=./$(dirname "$DEMO")
echo "== demo: $DEMO pkg: $PKG"
go build ./... && echo BUILD-OK || echo BUILD-FAIL
echo "== whole existing suite with the change, demo skipped (ExampleNew needs the network and always fails)"
go test -vet=off -count=1 -skip 'Demo|ZZ|ExampleNew' ./... 2>&1 | grep -E "^(FAIL|--- FAIL|ok)" | grep -v "^ok" | sort -u | head; echo "   (no FAIL lines above = suite passes)"
echo "== demo WITH change (expect FAIL)"
go test -vet=off -count=1 -run 'Demo|ZZ' $PKG 2>&1 | grep -E "^(ok|FAIL|--- FAIL)" | head -3
git apply -R $D/patch.diff
echo "== demo WITHOUT change (expect ok)"
go test -vet=off -count=1 -run 'Demo|ZZ' $PKG 2>&1 | grep -E "^(ok|FAIL|--- FAIL)" | head -3
git apply $D/patch.diff
echo "== gosym check $PROP with the change applied to /repo"
git -C /repo apply $D/patch.diff && (cd /verif && CMD=$(python3 -c "import json;print([c['quick_cmd'] for c in json.load(open('/verif/MANIFEST.json'))['checks'] if c['property_id']=='$PROP'][0])") && timeout 1800 $CMD 2>&1 | grep -E "^(VIOLATION|RESULT|KNOWN|INCONCLUSIVE|  violated)" | cut -c1-260 | head -12) 
git -C /repo checkout -- .
