#!/usr/bin/env python3
# Regenerates MANIFEST.json from manifest_src.json (claimed checks) and properties.jsonl.
import json, sys
props=[json.loads(l) for l in open('/verif/properties.jsonl')]
src=json.load(open('/verif/manifest_src.json'))
checks=[]; na=[]
for p in props:
    pid=p['id']
    if pid in src['checks']:
        c=src['checks'][pid]
        checks.append({
            "property_id": pid,
            "quick_cmd": f"bin/gosym check {pid} --tier quick" + c.get('args',''),
            "thorough_cmd": f"bin/gosym check {pid} --tier thorough" + c.get('args','') + c.get('thorough_args',''),
            "evidence_file": f"/verif/evidence/{pid}.json",
            "replay_cmd_template": "bin/gosym replay {path}",
            "engine": "gosym",
            "level_claimed": {"category": "model_checking", "text": c['text'], "design_ref": c.get('design_ref', f"DESIGN.md section 5 ({pid})")},
            "level_note": c['note'],
            "technique": c.get('technique', "bounded symbolic execution of the real go/ssa code, obligations discharged by z3 (SMT-LIB2), counterexamples replayed natively"),
        })
    else:
        na.append({"property_id": pid, "reason": src['not_applicable'].get(pid, "no harness registered yet: the kernel for this property has not been brought to zero inconclusive obligations (see DESIGN.md)")})
m={
 "version": 1,
 "setup_cmd": "cd /verif/engine && GOFLAGS=-mod=mod GOPROXY=off GOSUMDB=off GOTOOLCHAIN=local go build -o /verif/bin/gosym ./cmd/gosym",
 "hooks": {"guard": "verif", "enable": "no source hooks: harnesses are injected with go/packages Overlay (symbolic run) and `go test -overlay` (native replay); /repo is never modified by a check",
           "baseline_off_cmd": "cd /repo && go test -vet=off -count=1 -timeout 25m ./...", "source_commits": [], "add_only": True},
 "engines": [{"name": "gosym", "path": "/verif/engine", "serves_properties": [c['property_id'] for c in checks],
              "kind_free_text": "symbolic interpreter for go/ssa (x/tools v0.29.0) emitting SMT-LIB2 to z3; forks by re-execution along a decision log; native replay through go test -overlay"}],
 "checks": checks,
 "notes": src.get('notes',''),
 "not_applicable": na,
}
json.dump(m, open('/verif/MANIFEST.json','w'), indent=1)
print("checks:", [c['property_id'] for c in checks], "na:", len(na))
